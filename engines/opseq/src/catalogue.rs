//! Operator catalogue (operator x small parameter set) and pipeline generators,
//! ordered simplest first.
use crate::ast::*;
use crate::val::E;

/// single-input operators that have an exact list model
pub fn list_ops(full: bool) -> Vec<Op1> {
  // (1 << 32: a count that does not fit a narrower counter)
  let counts: Vec<usize> = if full { vec![0, 1, 2, 3, 5, 1usize << 32, usize::MAX] } else { vec![1, 2] };
  let preds: Vec<P> = if full { P::ALL.to_vec() } else { vec![P::Lt2] };
  let keys: Vec<K> = if full { K::ALL.to_vec() } else { vec![K::Mod2] };
  let mut v = vec![Op1::Map, Op1::MapTo(7), Op1::Tap, Op1::Timestamp];
  for p in &preds {
    v.push(Op1::Filter(*p));
  }
  v.push(Op1::FilterMap(preds[preds.len() - 1]));
  for n in &counts {
    v.push(Op1::Take(*n));
  }
  for n in &counts {
    v.push(Op1::Skip(*n));
  }
  for p in &preds {
    v.push(Op1::TakeWhile(*p));
    v.push(Op1::TakeWhileIncl(*p));
    v.push(Op1::SkipWhile(*p));
  }
  for n in &counts {
    v.push(Op1::TakeLast(*n));
    v.push(Op1::SkipLast(*n));
  }
  v.extend([Op1::First, Op1::FirstOr(9), Op1::Last, Op1::LastOr(9)]);
  for k in if full { vec![0, 1, 2, 4, 1usize << 32, usize::MAX] } else { vec![1] } {
    v.push(Op1::ElementAt(k));
  }
  v.push(Op1::IgnoreElements);
  v.push(Op1::StartWith(vec![7]));
  if full {
    v.push(Op1::StartWith(vec![7, 8]));
    v.push(Op1::StartWith(vec![]));
  }
  v.push(Op1::DefaultIfEmpty(9));
  v.extend([
    Op1::Scan,
    Op1::ScanInitial(5),
    Op1::Reduce,
    Op1::ReduceInitial(5),
    Op1::Count,
    Op1::Sum,
    Op1::Min,
    Op1::Max,
    Op1::Average,
    Op1::Distinct,
  ]);
  for k in &keys {
    v.push(Op1::DistinctKey(*k));
  }
  v.push(Op1::DistinctUntilChanged);
  for k in &keys {
    v.push(Op1::DistinctUntilKeyChanged(*k));
  }
  v.push(Op1::Pairwise);
  for n in if full { vec![1, 2, 3, usize::MAX] } else { vec![2] } {
    v.push(Op1::BufferWithCount(n));
  }
  for n in if full { vec![0, 1, 9] } else { vec![1] } {
    v.push(Op1::Contains(n));
  }
  for p in &preds {
    v.push(Op1::All(*p));
  }
  v.push(Op1::Collect);
  v.push(Op1::OnErrorMap);
  v.push(Op1::OnComplete);
  v.push(Op1::OnError);
  // stateful closures (every closure is called exactly once per item it is asked about)
  v.extend([Op1::MapIdx, Op1::FilterIdx, Op1::ScanIdx]);
  for n in if full { vec![0, 1, 2] } else { vec![1] } {
    v.push(Op1::TakeWhileIdx(n));
    v.push(Op1::SkipWhileIdx(n));
  }
  v
}

/// synchronous operators without a list model (monitors only)
pub fn sync_extra_ops() -> Vec<Op1> {
  use InnerSpec::*;
  use NoteSpec::*;
  vec![
    Op1::Finalize,
    Op1::BoxIt,
    Op1::Share,
    Op1::GroupByFlatten(K::Mod2),
    Op1::GroupByFlatten(K::Id),
    Op1::Flat(FlatKind::FlatMap, vec![Cold(vec![N(5), C]), Cold(vec![N(6), N(7), C])]),
    Op1::Flat(FlatKind::ConcatMap, vec![Cold(vec![N(5), C]), Cold(vec![Err(E::E1)])]),
    Op1::Flat(FlatKind::MergeAll(2), vec![Cold(vec![N(5)]), Cold(vec![N(6), C])]),
    Op1::Flat(FlatKind::ConcatAll, vec![Cold(vec![N(5), C]), Cold(vec![])]),
    Op1::Flat(FlatKind::Flatten, vec![Cold(vec![N(5), C])]),
  ]
}

/// scheduler-using single-input operators
pub fn time_ops(full: bool) -> Vec<Op1> {
  let mut v = vec![
    Op1::Delay(1),
    Op1::DelaySubscription(1),
    Op1::ObserveOn,
    Op1::SubscribeOn,
    Op1::Debounce(1),
    Op1::ThrottleTime(1, Edge::Leading),
    Op1::ThrottleTime(1, Edge::Tailing),
    Op1::ThrottleTime(1, Edge::All),
    Op1::BufferWithTime(1),
    Op1::BufferWithCountAndTime(2, 1),
    Op1::SampleInterval(1),
    Op1::TakeUntilTimer(1),
  ];
  if full {
    v.extend([
      Op1::Delay(2),
      Op1::Debounce(2),
      Op1::ThrottleTime(2, Edge::All),
      Op1::BufferWithTime(2),
      Op1::BufferWithCountAndTime(2, 2),
      Op1::SampleInterval(2),
      Op1::TakeUntilTimer(2),
      // boundary parameters: zero-length delays and windows, an instant in the past
      Op1::Delay(0),
      Op1::DelayAt(-2),
      Op1::Debounce(0),
      Op1::ThrottleTime(0, Edge::Tailing),
      Op1::ThrottleTime(0, Edge::All),
    ]);
  }
  v
}

pub fn cold_sources() -> Vec<Src> {
  use NoteSpec::{C, N};
  vec![
    Src::Of(1),
    Src::OfFn(1),
    Src::Start(1),
    Src::OfOption(None),
    Src::OfOption(Some(1)),
    Src::OfResult(Result::Ok(1)),
    Src::OfResult(Result::Err(E::E1)),
    Src::Repeat(1, 0),
    Src::Repeat(1, 3),
    Src::Empty,
    Src::Never,
    Src::Throw(E::E1),
    Src::Iter(vec![]),
    Src::Iter(vec![0, 1, 2]),
    Src::Iter(vec![2, 1, 1, 0]),
    Src::IntoIter(vec![0, 1]),
    Src::Create(vec![N(0), N(1), C]),
    Src::Create(vec![N(1), NoteSpec::Err(E::E0)]),
    Src::Create(vec![N(2), N(0)]),
    Src::Create(vec![N(0), C, N(1), C]),
    Src::Create(vec![NoteSpec::Err(E::E0), N(1), C]),
    Src::Defer(Box::new(Src::Iter(vec![0, 1]))),
    Src::Defer(Box::new(Src::Of(2))),
  ]
}

/// all chains `head.op_1...op_d` for 1 <= d <= depth
pub fn chains(head: &Pipe, ops: &[Op1], depth: usize) -> Vec<Pipe> {
  let mut out = vec![];
  let mut level = vec![head.clone()];
  for _ in 0..depth {
    let mut next = vec![];
    for p in &level {
      for op in ops {
        next.push(p.clone().o1(op.clone()));
      }
    }
    out.extend(next.iter().cloned());
    level = next;
  }
  out
}
