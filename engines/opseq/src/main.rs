pub mod ast;
pub mod catalogue;
pub mod drive;
pub mod explore;
pub mod model;
pub mod probe;
pub mod props;
pub mod report;
pub mod val;
pub mod world;

use props::Tier;
use std::time::Instant;

fn usage() -> ! {
  eprintln!("usage: opseq <PROP> [--tier quick|thorough] [--threads N] [--replay FILE] [--list]");
  std::process::exit(2)
}

fn main() {
  let args: Vec<String> = std::env::args().skip(1).collect();
  if args.is_empty() {
    usage();
  }
  let prop = args[0].clone();
  let mut tier = match std::env::var("VERIF_TIER").as_deref() {
    Ok("thorough") => Tier::Thorough,
    _ => Tier::Quick,
  };
  let mut threads = std::thread::available_parallelism().map(|n| n.get()).unwrap_or(4);
  let mut replay: Option<String> = None;
  let mut list = false;
  let mut i = 1;
  while i < args.len() {
    match args[i].as_str() {
      "--tier" => {
        i += 1;
        tier = match args.get(i).map(|s| s.as_str()) {
          Some("quick") => Tier::Quick,
          Some("thorough") => Tier::Thorough,
          _ => usage(),
        };
      }
      "--threads" => {
        i += 1;
        threads = args.get(i).and_then(|s| s.parse().ok()).unwrap_or_else(|| usage());
      }
      "--replay" => {
        i += 1;
        replay = Some(args.get(i).cloned().unwrap_or_else(|| usage()));
      }
      "--list" => list = true,
      _ => usage(),
    }
    i += 1;
  }
  report::install_panic_hook();
  world::install_timer_fn();
  let t0 = Instant::now();
  let Some(plan) = props::plan(&prop, tier) else {
    eprintln!("MACHINERY: unknown property {prop}");
    std::process::exit(2);
  };
  if list {
    for j in &plan.jobs {
      println!("{}", j.name);
    }
    return;
  }
  if let Some(file) = replay {
    let s = std::fs::read_to_string(&file).unwrap_or_else(|e| {
      eprintln!("MACHINERY: cannot read {file}: {e}");
      std::process::exit(2)
    });
    let v: serde_json::Value = serde_json::from_str(&s).unwrap_or_else(|e| {
      eprintln!("MACHINERY: cannot parse {file}: {e}");
      std::process::exit(2)
    });
    let scenario = v["scenario"].as_str().unwrap_or("").to_string();
    let choices: Vec<u32> = v["choices"]
      .as_array()
      .map(|a| a.iter().filter_map(|x| x.as_u64()).map(|x| x as u32).collect())
      .unwrap_or_default();
    // a replay file may come from either tier
    let mut plan = plan;
    if !plan.jobs.iter().any(|j| j.name == scenario) {
      let other = if tier == Tier::Quick { Tier::Thorough } else { Tier::Quick };
      if let Some(p2) = props::plan(&prop, other) {
        plan = p2;
      }
    }
    let code = report::replay(plan.jobs, &scenario, choices);
    std::process::exit(code);
  }
  let rep = report::run_jobs(plan.jobs, threads);
  let code = report::finish(plan.finish, &rep, &[], t0);
  std::process::exit(code);
}
