//! The controlled world of engine E1: a virtual clock plugged into the
//! library's own `NEW_TIMER_FN` seam, and a gating scheduler around the real
//! `futures::executor::LocalSpawner` that lets the harness decide which ready
//! task is polled next. `Remote`, `TaskHandle`, `OnceTask`, `RepeatTask`,
//! `FutureTask` and the `LocalPool` are the shipped ones.
use futures::executor::{LocalPool, LocalSpawner};
use rxrust::scheduler::{BoxFuture, Scheduler, TaskHandle, NEW_TIMER_FN};
use std::cell::RefCell;
use std::future::Future;
use std::pin::Pin;
use std::task::{Context, Poll, Waker};
use std::time::Duration;

/// One virtual tick, in nanoseconds: a thousand seconds, so that the handful of
/// places that read the real `Instant::now()` round to the intended tick, plus
/// half a millisecond and a nanosecond, so that a duration that is silently
/// rounded to whole milliseconds (or microseconds) on its way to the timer seam
/// is no longer one of the configured durations.
pub const TICK_NANOS: u64 = 1_000_000_500_001;

pub fn ticks(n: u64) -> Duration {
  Duration::from_nanos(n * TICK_NANOS)
}

pub fn to_ticks(d: Duration) -> u64 {
  ((d.as_nanos() + TICK_NANOS as u128 / 2) / TICK_NANOS as u128) as u64
}

struct Timer {
  due: u64,
  waker: Option<Waker>,
  done: bool,
}

#[derive(Clone, Debug, PartialEq, Eq)]
pub struct TimerReq {
  pub at: u64,
  pub ticks: u64,
  pub step: u64,
  /// the duration exactly as requested
  pub dur: Duration,
  /// the real clock when the request was made
  pub wall: std::time::Instant,
}

#[derive(Default)]
struct WorldState {
  now: u64,
  step: u64,
  timers: Vec<Timer>,
  timer_log: Vec<TimerReq>,
  timers_this_step: usize,
  // gates
  next_gate: u64,
  ready: Vec<(u64, Waker)>,
  permit: Option<u64>,
  gate_polls: u64,
  body_polls: u64,
}

thread_local! {
  static W: RefCell<WorldState> = RefCell::new(WorldState::default());
}

fn new_vtimer(d: Duration) -> BoxFuture<'static, ()> {
  let id = W.with(|w| {
    let mut w = w.borrow_mut();
    let t = to_ticks(d);
    let due = w.now + t;
    let (at, step) = (w.now, w.step);
    // a periodic task whose period is zero re-arms and fires inside one poll for
    // ever (on a real executor: a task that never yields). Reported instead of
    // exhausting memory.
    if w.timer_log.last().map_or(false, |r| r.step == step && r.at == at) {
      w.timers_this_step += 1;
    } else {
      w.timers_this_step = 0;
    }
    assert!(
      w.timers_this_step < 50_000,
      "runaway: 50000 timers requested at one instant within one scheduler step (a zero-length period?), last duration {d:?}"
    );
    w.timer_log.push(TimerReq { at, ticks: t, step, dur: d, wall: std::time::Instant::now() });
    w.timers.push(Timer { due, waker: None, done: false });
    w.timers.len() - 1
  });
  Box::pin(VTimer(id))
}

struct VTimer(usize);

impl Future for VTimer {
  type Output = ();
  fn poll(self: Pin<&mut Self>, cx: &mut Context<'_>) -> Poll<()> {
    W.with(|w| {
      let mut w = w.borrow_mut();
      let now = w.now;
      let t = &mut w.timers[self.0];
      if t.due <= now {
        t.done = true;
        t.waker = None;
        Poll::Ready(())
      } else {
        t.waker = Some(cx.waker().clone());
        Poll::Pending
      }
    })
  }
}

impl Drop for VTimer {
  fn drop(&mut self) {
    // a dropped timer can never fire
    let _ = W.try_with(|w| {
      if let Ok(mut w) = w.try_borrow_mut() {
        if let Some(t) = w.timers.get_mut(self.0) {
          t.done = true;
          t.waker = None;
        }
      }
    });
  }
}

pub fn install_timer_fn() {
  let _ = NEW_TIMER_FN.set(new_vtimer);
}

// ---------------------------------------------------------------- clock API

pub fn now() -> u64 {
  W.with(|w| w.borrow().now)
}
pub fn step() -> u64 {
  W.with(|w| w.borrow().step)
}
pub fn bump_step() -> u64 {
  W.with(|w| {
    let mut w = w.borrow_mut();
    w.step += 1;
    w.step
  })
}
pub fn timer_log() -> Vec<TimerReq> {
  W.with(|w| w.borrow().timer_log.clone())
}
pub fn body_polls() -> u64 {
  W.with(|w| w.borrow().body_polls)
}
/// timers that are neither elapsed-and-consumed nor dropped
pub fn live_timers() -> usize {
  W.with(|w| w.borrow().timers.iter().filter(|t| !t.done).count())
}
pub fn pending_timer_due() -> Option<u64> {
  W.with(|w| w.borrow().timers.iter().filter(|t| !t.done).map(|t| t.due).min())
}

// ---------------------------------------------------------------- gate

pin_project_lite::pin_project! {
  /// Wraps a task handed to the scheduler: it only polls the task when the
  /// controller has granted exactly this gate one poll; otherwise it parks
  /// itself in the ready list.
  pub struct Gate<T> {
    #[pin]
    task: T,
    id: u64,
  }
}

impl<T: Future> Future for Gate<T> {
  type Output = T::Output;
  fn poll(self: Pin<&mut Self>, cx: &mut Context<'_>) -> Poll<T::Output> {
    let this = self.project();
    let id = *this.id;
    let granted = W.with(|w| {
      let mut w = w.borrow_mut();
      w.gate_polls += 1;
      if w.permit == Some(id) {
        w.permit = None;
        w.ready.retain(|(g, _)| *g != id);
        w.body_polls += 1;
        true
      } else {
        if let Some(e) = w.ready.iter_mut().find(|(g, _)| *g == id) {
          e.1 = cx.waker().clone();
        } else {
          w.ready.push((id, cx.waker().clone()));
        }
        false
      }
    });
    if granted {
      this.task.poll(cx)
    } else {
      Poll::Pending
    }
  }
}

/// The scheduler handed to every scheduler-using operator in E1.
#[derive(Clone)]
pub struct Gated {
  inner: LocalSpawner,
}

impl<T> Scheduler<T> for Gated
where
  T: Future + 'static,
  LocalSpawner: Scheduler<Gate<T>>,
{
  fn schedule(&self, task: T, delay: Option<Duration>) -> TaskHandle<T::Output> {
    let id = W.with(|w| {
      let mut w = w.borrow_mut();
      w.next_gate += 1;
      w.next_gate
    });
    self.inner.schedule(Gate { task, id }, delay)
  }
}

/// `Send` face of the same scheduler for the `_threads` operator forms. E1
/// never leaves its thread, so nothing is ever actually sent.
#[derive(Clone)]
pub struct GatedSend(pub Gated);
unsafe impl Send for GatedSend {}
unsafe impl Sync for GatedSend {}

impl<T> Scheduler<T> for GatedSend
where
  T: Future + 'static,
  LocalSpawner: Scheduler<Gate<T>>,
{
  fn schedule(&self, task: T, delay: Option<Duration>) -> TaskHandle<T::Output> {
    self.0.schedule(task, delay)
  }
}

/// One world per execution. Creating it resets the thread's clock and gates.
pub struct World {
  pool: LocalPool,
  pub sched: Gated,
  pub runs: u64,
  pub ticks: u64,
}

impl World {
  pub fn new() -> World {
    install_timer_fn();
    W.with(|w| *w.borrow_mut() = WorldState::default());
    let pool = LocalPool::new();
    let sched = Gated { inner: pool.spawner() };
    World { pool, sched, runs: 0, ticks: 0 }
  }

  pub fn sched_send(&self) -> GatedSend {
    GatedSend(self.sched.clone())
  }

  /// Let the executor poll everything that was woken; gated bodies do not run.
  pub fn settle(&mut self) {
    self.pool.run_until_stalled();
  }

  pub fn ready_len(&self) -> usize {
    W.with(|w| w.borrow().ready.len())
  }

  /// Grant one poll to the k-th ready task and let the executor run it.
  pub fn run_ready(&mut self, k: usize) {
    let (id, waker) = W.with(|w| {
      let mut w = w.borrow_mut();
      let (id, waker) = w.ready[k].clone();
      w.permit = Some(id);
      (id, waker)
    });
    waker.wake();
    self.pool.run_until_stalled();
    W.with(|w| {
      let mut w = w.borrow_mut();
      if w.permit == Some(id) {
        // the task was cancelled (Remote bailed out) or is gone
        w.permit = None;
        w.ready.retain(|(g, _)| *g != id);
      }
    });
    self.runs += 1;
  }

  /// Advance the virtual clock by `n` ticks at once, then fire every due timer
  /// in creation order. Gated bodies do not run.
  pub fn advance(&mut self, n: u64) {
    let wakers: Vec<Waker> = W.with(|w| {
      let mut w = w.borrow_mut();
      w.now += n;
      let now = w.now;
      w.timers
        .iter_mut()
        .filter(|t| !t.done && t.due <= now)
        .filter_map(|t| t.waker.take())
        .collect()
    });
    for wk in wakers {
      wk.wake();
    }
    self.ticks += n;
    self.pool.run_until_stalled();
  }

  /// Let `n` ticks pass without the executor getting a chance to run at all
  /// (nothing is polled, no waker fires): an executor that starts late.
  pub fn skew(&mut self, n: u64) {
    W.with(|w| w.borrow_mut().now += n);
    self.ticks += n;
  }

  /// FIFO-prompt executor: run ready tasks in ready-list order until none is
  /// left (or `cap` polls were spent). Returns false when the cap was hit.
  pub fn drain_fifo(&mut self, cap: usize) -> bool {
    let mut n = 0;
    self.settle();
    while self.ready_len() > 0 {
      if n >= cap {
        return false;
      }
      self.run_ready(0);
      n += 1;
    }
    true
  }

  /// Can nothing ever run again although timers may formally be alive: no ready
  /// task, and every live timer is already due yet nobody waits on it (it was
  /// created but never polled, so it can wake nobody)?
  pub fn dead_quiet(&self) -> bool {
    self.ready_len() == 0
      && W.with(|w| {
        let w = w.borrow();
        w.timers.iter().filter(|t| !t.done).all(|t| t.waker.is_none() && t.due <= w.now)
      })
  }

  /// Is there nothing left that could ever run (no ready task, no live timer)?
  pub fn idle(&self) -> bool {
    self.ready_len() == 0 && live_timers() == 0
  }
}

impl Default for World {
  fn default() -> Self {
    World::new()
  }
}
