//! Job runner, violation classes, known-findings matching, evidence and replay
//! files. Exit codes: 0 held, 1 violation, 2 machinery failure.
use crate::explore::{explore_from, Chooser, Stats};
use serde_json::{json, Value};
use std::cell::RefCell;
use std::collections::hash_map::DefaultHasher;
use std::collections::{BTreeMap, HashSet};
use std::hash::{Hash, Hasher};
use std::panic::{catch_unwind, AssertUnwindSafe};
use std::sync::atomic::{AtomicUsize, Ordering};
use std::sync::Mutex;
use std::time::Instant;

pub const VERIF_ROOT: &str = "/verif";

#[derive(Clone, Debug)]
pub struct Viol {
  /// class key: `<clause>:<signature>`; compared with known_findings.json
  pub class: String,
  pub detail: String,
}

/// What one execution reports back to the runner.
#[derive(Default)]
pub struct Obs {
  pub viol: Vec<Viol>,
  /// notifications that reached any probe
  pub delivered: u64,
  /// hash material describing the observable outcome of the execution
  pub outcome: u64,
  /// oracle comparisons made
  pub checks: u64,
  /// steps at which the exact oracle abstained (behaviour unspecified)
  pub unspecified: u64,
  /// a cap (poll / horizon) was hit inside the execution
  pub capped: bool,
  /// the library panicked in a job where that is not this property's business
  pub aborted_by_panic: bool,
  /// free-form lines for replay output
  pub trace: Vec<String>,
  pub want_trace: bool,
}

impl Obs {
  pub fn fail(&mut self, class: impl Into<String>, detail: impl Into<String>) {
    self.viol.push(Viol { class: class.into(), detail: detail.into() });
  }
  pub fn note_outcome<T: Hash>(&mut self, t: &T) {
    let mut h = DefaultHasher::new();
    self.outcome.hash(&mut h);
    crate::val::PRECISE_HASH.with(|p| p.set(true));
    t.hash(&mut h);
    crate::val::PRECISE_HASH.with(|p| p.set(false));
    self.outcome = h.finish();
  }
  pub fn log(&mut self, f: impl FnOnce() -> String) {
    if self.want_trace {
      self.trace.push(f());
    }
  }
}

pub struct Job {
  pub name: String,
  pub dev_bound: u32,
  pub max_execs: u64,
  /// is a panic / a call that never returns a violation of *this* property?
  /// Default yes: none of the explored histories re-enters a pipeline in a way
  /// the library does not support, so a panic or a hang means the documented
  /// behaviour was not delivered. `tolerate_panics()` turns it into "aborted,
  /// not judged" for a job that deliberately does unsupported things.
  pub panic_is_violation: bool,
  /// short signature used in the class key of a hang
  pub sig: String,
  /// explore only the subtree below this choice prefix
  pub root: Vec<u32>,
  pub run: Box<dyn Fn(&mut Chooser, &mut Obs) + Send + Sync>,
}

impl Job {
  pub fn new(
    name: impl Into<String>,
    run: impl Fn(&mut Chooser, &mut Obs) + Send + Sync + 'static,
  ) -> Job {
    { let name: String = name.into(); Job { sig: name.clone(), name, root: vec![], dev_bound: 0, max_execs: u64::MAX, panic_is_violation: true, run: Box::new(run) } }
  }
  pub fn devs(mut self, d: u32) -> Job {
    self.dev_bound = d;
    self
  }
  pub fn root(mut self, r: Vec<u32>) -> Job {
    self.root = r;
    self
  }
  pub fn sig(mut self, s: impl Into<String>) -> Job {
    self.sig = s.into();
    self
  }
  pub fn panics_violate(mut self) -> Job {
    self.panic_is_violation = true;
    self
  }
  pub fn tolerate_panics(mut self) -> Job {
    self.panic_is_violation = false;
    self
  }
  pub fn cap(mut self, n: u64) -> Job {
    self.max_execs = n;
    self
  }
}

#[derive(Clone, Debug)]
pub struct ClassRec {
  pub count: u64,
  pub job_idx: usize,
  pub job: String,
  pub choices: Vec<u32>,
  pub detail: String,
}

#[derive(Default)]
pub struct Report {
  pub stats: Stats,
  pub jobs: u64,
  pub classes: BTreeMap<String, ClassRec>,
  pub delivered_execs: u64,
  pub outcomes: HashSet<u64>,
  pub checks: u64,
  pub unspecified: u64,
  pub capped_execs: u64,
  pub aborted_execs: u64,
  pub hung_execs: u64,
  pub spurious_hang_suspicions: u64,
  pub hung: Vec<String>,
  pub samples: Vec<Value>,
  pub machinery: Vec<String>,
  pub extra: BTreeMap<String, Value>,
}

impl Report {
  fn merge(&mut self, o: Report) {
    self.stats.add(&o.stats);
    self.jobs += o.jobs;
    for (k, v) in o.classes {
      match self.classes.get_mut(&k) {
        Some(e) => {
          e.count += v.count;
          if (v.choices.len(), v.job_idx) < (e.choices.len(), e.job_idx) {
            e.job = v.job;
            e.job_idx = v.job_idx;
            e.choices = v.choices;
            e.detail = v.detail;
          }
        }
        None => {
          self.classes.insert(k, v);
        }
      }
    }
    self.delivered_execs += o.delivered_execs;
    self.outcomes.extend(o.outcomes);
    self.checks += o.checks;
    self.unspecified += o.unspecified;
    self.capped_execs += o.capped_execs;
    self.aborted_execs += o.aborted_execs;
    self.hung_execs += o.hung_execs;
    self.spurious_hang_suspicions += o.spurious_hang_suspicions;
    self.hung.extend(o.hung);
    for s in o.samples {
      if self.samples.len() < 12 {
        self.samples.push(s);
      }
    }
    self.machinery.extend(o.machinery);
  }
}

thread_local! {
  static LAST_PANIC: RefCell<String> = RefCell::new(String::new());
}

pub fn install_panic_hook() {
  std::panic::set_hook(Box::new(|info| {
    let msg = if let Some(s) = info.payload().downcast_ref::<&str>() {
      s.to_string()
    } else if let Some(s) = info.payload().downcast_ref::<String>() {
      s.clone()
    } else {
      "panic".to_string()
    };
    let loc = info
      .location()
      .map(|l| format!("{}:{}", l.file(), l.line()))
      .unwrap_or_default();
    LAST_PANIC.with(|p| *p.borrow_mut() = format!("{msg} @ {loc}"));
  }));
}

fn run_one(job: &Job, ch: &mut Chooser, want_trace: bool) -> Obs {
  let mut obs = Obs { want_trace, ..Default::default() };
  let r = catch_unwind(AssertUnwindSafe(|| (job.run)(ch, &mut obs)));
  if r.is_err() {
    let msg = LAST_PANIC.with(|p| p.borrow().clone());
    if msg.contains("MACHINERY") {
      obs.fail("machinery", msg);
    } else if job.panic_is_violation {
      // keep the class stable: strip addresses / numbers after the location
      let short: String = msg.chars().take(160).collect();
      obs.fail(format!("panic:{}", panic_class(&short)), short);
    } else {
      obs.aborted_by_panic = true;
    }
  }
  obs
}

fn panic_class(msg: &str) -> String {
  // "<text> @ <file>:<line>" -> "<text> @ <file>" with the repo prefix removed
  let (text, loc) = msg.split_once(" @ ").unwrap_or((msg, ""));
  let file = loc.rsplit_once(':').map(|x| x.0).unwrap_or(loc);
  let file = file.rsplit("/src/").next().unwrap_or(file);
  let text: String = text.chars().filter(|c| !c.is_ascii_digit()).take(60).collect();
  format!("{text}@{file}")
}

const HANG_SECS: u64 = 6;
const MAX_HANGS: u64 = 12;
const CONFIRM_SECS: u64 = 10;
const UNDECIDED_SECS: u64 = 600;

#[derive(Default)]
struct Beat {
  active: bool,
  dead: bool,
  finished: bool,
  job_idx: usize,
  prefix: Vec<u32>,
  started: Option<Instant>,
}

struct Shared {
  jobs: Vec<Job>,
  next: AtomicUsize,
  total: Mutex<Report>,
  beats: Mutex<Vec<std::sync::Arc<Mutex<Beat>>>>,
}

fn record_class(rep: &mut Report, class: String, i: usize, job: &str, choices: Vec<u32>, detail: String) {
  match rep.classes.get_mut(&class) {
    Some(e) => {
      e.count += 1;
      if (choices.len(), i) < (e.choices.len(), e.job_idx) {
        e.job = job.to_string();
        e.job_idx = i;
        e.choices = choices;
        e.detail = detail;
      }
    }
    None => {
      rep.classes.insert(
        class,
        ClassRec { count: 1, job_idx: i, job: job.to_string(), choices, detail },
      );
    }
  }
}

fn worker(sh: std::sync::Arc<Shared>, beat: std::sync::Arc<Mutex<Beat>>) {
  loop {
    let i = sh.next.fetch_add(1, Ordering::SeqCst);
    if i >= sh.jobs.len() {
      break;
    }
    let job = &sh.jobs[i];
    let mut rep = Report::default();
    rep.jobs += 1;
    let mut first = true;
    let mut n_exec: u64 = 0;
    let step = (sh.jobs.len() / 10).max(1);
    let stats = explore_from(&job.root, job.dev_bound, job.max_execs, |ch| {
      {
        let mut b = beat.lock().unwrap();
        b.active = true;
        b.job_idx = i;
        b.prefix = ch.prefix().to_vec();
        b.started = Some(Instant::now());
      }
      let obs = run_one(job, ch, false);
      beat.lock().unwrap().active = false;
      n_exec += 1;
      if obs.delivered > 0 {
        rep.delivered_execs += 1;
      }
      rep.outcomes.insert(obs.outcome);
      rep.checks += obs.checks;
      rep.unspecified += obs.unspecified;
      if obs.capped {
        rep.capped_execs += 1;
      }
      if obs.aborted_by_panic {
        rep.aborted_execs += 1;
      }
      // determinism self-check on a fixed sample of executions
      if n_exec % 4096 == 1 {
        let mut ch2 = Chooser::new(ch.choices(), u32::MAX);
        let o2 = run_one(job, &mut ch2, false);
        if o2.outcome != obs.outcome || ch2.choices() != ch.choices() {
          rep.machinery.push(format!(
            "non-deterministic replay in job {} choices {:?}",
            job.name,
            ch.choices()
          ));
        }
      }
      // one written-out case from every step-th scenario: its second execution
      // when there is one (the first is the all-defaults path), else its first
      if first && n_exec <= 2 && i % step == 0 {
        if n_exec == 2 {
          first = false;
          rep.samples.clear();
        }
        let mut ch3 = Chooser::new(ch.choices(), u32::MAX);
        ch3.want_labels = true;
        let o3 = run_one(job, &mut ch3, true);
        rep.samples.push(json!({
          "scenario": job.name,
          "choices": ch.choices(),
          "steps": ch3.labels,
          "trace": o3.trace,
        }));
      }
      for v in obs.viol {
        if v.class == "machinery" {
          rep.machinery.push(format!("{}: {}", job.name, v.detail));
          continue;
        }
        record_class(&mut rep, v.class, i, &job.name, ch.choices(), v.detail);
      }
      true
    });
    rep.stats.add(&stats);
    sh.total.lock().unwrap().merge(rep);
  }
  beat.lock().unwrap().finished = true;
}

fn spawn_worker(sh: &std::sync::Arc<Shared>) {
  let beat = std::sync::Arc::new(Mutex::new(Beat::default()));
  sh.beats.lock().unwrap().push(beat.clone());
  let sh2 = sh.clone();
  std::thread::Builder::new()
    .stack_size(16 << 20)
    .spawn(move || worker(sh2, beat))
    .expect("spawn worker");
}

/// Run all jobs on `threads` workers; every job's choice tree is enumerated
/// completely (or up to its cap, which is reported). A watchdog detects an
/// execution that never returns (a real lock cycle in a `_threads` operator
/// blocks its OS thread for good): the execution is recorded, its worker is
/// abandoned and replaced.
pub fn run_jobs(jobs: Vec<Job>, threads: usize) -> Report {
  use std::sync::Arc;
  let sh = Arc::new(Shared {
    jobs,
    next: AtomicUsize::new(0),
    total: Mutex::new(Report::default()),
    beats: Mutex::new(vec![]),
  });
  for _ in 0..threads.max(1) {
    spawn_worker(&sh);
  }
  loop {
    std::thread::sleep(std::time::Duration::from_millis(20));
    let beats: Vec<_> = sh.beats.lock().unwrap().clone();
    let mut all_done = true;
    for b in beats {
      let mut hang: Option<(usize, Vec<u32>)> = None;
      {
        let mut g = b.lock().unwrap();
        if g.dead || g.finished {
          continue;
        }
        all_done = false;
        if g.active && g.started.map_or(false, |t| t.elapsed().as_secs() >= HANG_SECS) {
          g.dead = true;
          hang = Some((g.job_idx, g.prefix.clone()));
        }
      }
      if let Some((i, prefix)) = hang {
        // a real lock cycle is deterministic: the same choices block again. A
        // worker that was merely starved of CPU (loaded machine) is not a hang.
        let (tx, rx) = std::sync::mpsc::channel();
        let (sh3, p3) = (sh.clone(), prefix.clone());
        let _ = std::thread::Builder::new().stack_size(16 << 20).spawn(move || {
          let mut ch = Chooser::new(p3, u32::MAX);
          let _ = run_one(&sh3.jobs[i], &mut ch, false);
          let _ = tx.send(());
        });
        // ... and "again" is judged against a canary, not against the wall clock
        // alone: the same job's default execution, run in a fresh thread while the
        // suspect is being re-executed. Only when the canary returned promptly three
        // times in a row (the machine demonstrably executes this kind of work) while
        // the suspect stayed blocked, and CONFIRM_SECS have passed, is it a hang. A
        // machine that is stalled (memory pressure, CPU starvation) stalls the
        // canary as well, and then nothing is concluded until it recovers.
        let t_confirm = Instant::now();
        let mut prompt_canaries = 0;
        let mut returned = false;
        let mut undecided = false;
        loop {
          if rx.recv_timeout(std::time::Duration::from_secs(if prompt_canaries == 0 { CONFIRM_SECS } else { 3 })).is_ok() {
            returned = true;
            break;
          }
          if prompt_canaries >= 3 {
            break;
          }
          if t_confirm.elapsed().as_secs() > UNDECIDED_SECS {
            undecided = true;
            break;
          }
          let (ctx, crx) = std::sync::mpsc::channel();
          let sh4 = sh.clone();
          let t_c = Instant::now();
          let _ = std::thread::Builder::new().stack_size(16 << 20).spawn(move || {
            let mut ch = Chooser::new(vec![], u32::MAX);
            let _ = run_one(&sh4.jobs[i], &mut ch, false);
            let _ = ctx.send(());
          });
          match crx.recv_timeout(std::time::Duration::from_secs(60)) {
            Ok(()) if t_c.elapsed().as_millis() < 1000 => prompt_canaries += 1,
            _ => prompt_canaries = 0,
          }
        }
        if returned {
          sh.total.lock().unwrap().spurious_hang_suspicions += 1;
          b.lock().unwrap().dead = false;
          continue;
        }
        if undecided {
          // neither the suspect nor a prompt canary: an engine / machine problem, never a verdict
          let mut t = sh.total.lock().unwrap();
          t.machinery.push(format!("could not decide within {UNDECIDED_SECS}s whether `{}` choices {:?} blocks (the machine does not execute the canary promptly)", sh.jobs[i].name, prefix));
          t.stats.capped = true;
          drop(t);
          spawn_worker(&sh);
          continue;
        }
        let job = &sh.jobs[i];
        {
          let mut t = sh.total.lock().unwrap();
          t.jobs += 1;
          t.stats.capped = true;
          t.hung_execs += 1;
          if job.panic_is_violation {
            record_class(
              &mut t,
              format!("hang:{}", job.sig),
              i,
              &job.name,
              prefix.clone(),
              format!("execution did not return within {HANG_SECS}s and again not when re-executed, while the same scenario's default execution returned promptly three times meanwhile (blocked for good); choices {prefix:?} then defaults"),
            );
          } else {
            t.hung.push(format!("{} choices {:?}", job.name, prefix));
          }
        }
        let hung_so_far = sh.total.lock().unwrap().hung_execs;
        if hung_so_far >= MAX_HANGS {
          // every further hang costs a full watchdog period: stop handing out
          // scenarios (reported as a capped, non-exhaustive run)
          sh.next.store(sh.jobs.len(), Ordering::SeqCst);
        }
        spawn_worker(&sh);
      }
    }
    if all_done {
      break;
    }
  }
  let mut guard = sh.total.lock().unwrap();
  std::mem::take(&mut *guard)
}

// ------------------------------------------------------------ known findings

#[derive(Clone, Debug)]
pub struct Known {
  pub property: String,
  pub status: String,
  pub class: String,
  pub what: String,
}

pub fn load_known() -> Vec<Known> {
  let p = format!("{VERIF_ROOT}/known_findings.json");
  let Ok(s) = std::fs::read_to_string(&p) else { return vec![] };
  let v: Value = match serde_json::from_str(&s) {
    Ok(v) => v,
    Err(e) => {
      eprintln!("MACHINERY: cannot parse {p}: {e}");
      std::process::exit(2);
    }
  };
  let mut out = vec![];
  for e in v["findings"].as_array().cloned().unwrap_or_default() {
    out.push(Known {
      property: e["property"].as_str().unwrap_or("").to_string(),
      status: e["status"].as_str().unwrap_or("").to_string(),
      class: e["class"].as_str().unwrap_or("").to_string(),
      what: e["what"].as_str().unwrap_or("").to_string(),
    });
  }
  out
}

pub struct Finish {
  pub prop: String,
  pub tier: String,
  pub engine: String,
  pub rule: String,
  pub bounds: Value,
  pub assumptions: Vec<String>,
}

/// Write evidence + replay files, print verdict lines, return the exit code.
pub fn finish(f: Finish, rep: &Report, jobs: &[(String, ())], t0: Instant) -> i32 {
  let _ = jobs;
  let known = load_known();
  let mut exit = 0;
  let mut violations = 0u64;
  let mut known_hits = vec![];
  let mut viol_lines = 0;
  let dir = format!("{VERIF_ROOT}/replays/{}", f.prop);
  let _ = std::fs::create_dir_all(&dir);
  let mut class_json = vec![];
  for (class, rec) in &rep.classes {
    let is_known = known
      .iter()
      .find(|k| k.property == f.prop && k.status == "known" && k.class == *class);
    let fname = format!(
      "{dir}/{}.json",
      class.chars().map(|c| if c.is_ascii_alphanumeric() { c } else { '_' }).collect::<String>()
    );
    let replay = json!({
      "property": f.prop, "engine": f.engine, "class": class, "scenario": rec.job,
      "choices": rec.choices, "detail": rec.detail, "count_in_run": rec.count,
    });
    let _ = std::fs::write(&fname, serde_json::to_string_pretty(&replay).unwrap());
    class_json.push(json!({"class": class, "count": rec.count, "scenario": rec.job,
      "detail": rec.detail, "known": is_known.is_some(), "replay": fname}));
    match is_known {
      Some(k) => {
        println!("KNOWN-FINDING: property={} {} [{}] e.g. {} :: {}", f.prop, k.what, class, rec.job, rec.detail);
        known_hits.push(class.clone());
      }
      None => {
        violations += rec.count;
        exit = 1;
        if viol_lines < 20 {
          println!("VIOLATION property={} replay={}", f.prop, fname);
          println!("  class={} scenario={} detail={}", class, rec.job, rec.detail);
          viol_lines += 1;
        }
      }
    }
  }
  if !rep.machinery.is_empty() {
    for m in rep.machinery.iter().take(10) {
      eprintln!("MACHINERY: {m}");
    }
    exit = 2;
  }
  let exhaustive = !rep.stats.capped && rep.capped_execs == 0;
  let mut coverage = json!({
    "states": rep.stats.states,
    "transitions": rep.stats.transitions,
    "traces_validated_against_impl": rep.stats.executions,
    "evaluations": rep.stats.executions,
    "distinct_nontrivial": rep.delivered_execs,
    "distinct_outcomes": rep.outcomes.len(),
    "rule": f.rule,
    "samples": rep.samples,
    "exhaustive": exhaustive,
    "scenarios": rep.jobs,
    "oracle_checks": rep.checks,
    "skipped_unspecified": rep.unspecified,
    "steps_executed_including_replays": rep.stats.steps_executed,
    "max_depth": rep.stats.max_depth,
    "max_deviations_used": rep.stats.max_deviations,
    "executions_that_hit_a_cap": rep.capped_execs,
    "executions_aborted_by_library_panic_not_judged_here": rep.aborted_execs,
    "executions_that_never_returned": rep.hung_execs,
    "slow_executions_that_returned_on_re_execution": rep.spurious_hang_suspicions,
    "never_returned_not_judged_here": rep.hung.iter().take(10).collect::<Vec<_>>(),
    "bounds": f.bounds,
    "violation_classes": class_json,
    "known_findings_hit": known_hits,
    "engine": f.engine,
  });
  for (k, v) in &rep.extra {
    coverage[k] = v.clone();
  }
  let seed = std::env::var("VERIF_SEED").ok().and_then(|s| s.parse::<i64>().ok()).unwrap_or(0);
  let ev = json!({
    "property_id": f.prop,
    "tier": f.tier,
    "seed": seed,
    "level": "model_checking",
    "coverage": coverage,
    "assumptions": f.assumptions,
    "wall_s": t0.elapsed().as_secs_f64(),
    "violations": violations,
  });
  let out = std::env::var("VERIF_EVIDENCE_OUT")
    .unwrap_or_else(|_| format!("{VERIF_ROOT}/evidence/{}.json", f.prop));
  if let Err(e) = std::fs::write(&out, serde_json::to_string_pretty(&ev).unwrap()) {
    eprintln!("MACHINERY: cannot write evidence {out}: {e}");
    return 2;
  }
  println!(
    "{} {} [{}]: scenarios={} executions={} states={} transitions={} outcomes={} nontrivial={} checks={} unspecified={} exhaustive={} classes={} wall={:.1}s",
    f.prop, f.tier, f.engine, rep.jobs, rep.stats.executions, rep.stats.states, rep.stats.transitions,
    rep.outcomes.len(), rep.delivered_execs, rep.checks, rep.unspecified, exhaustive,
    rep.classes.len(), t0.elapsed().as_secs_f64()
  );
  exit
}

/// Re-execute one recorded case twice without the explorer and print it.
pub fn replay(jobs: Vec<Job>, scenario: &str, choices: Vec<u32>) -> i32 {
  let Some(idx) = jobs.iter().position(|j| j.name == scenario) else {
    eprintln!("MACHINERY: scenario not found: {scenario}");
    return 2;
  };
  let jobs = std::sync::Arc::new(jobs);
  let (tx, rx) = std::sync::mpsc::channel();
  let j2 = jobs.clone();
  std::thread::spawn(move || {
    let job = &j2[idx];
    let mut outs = vec![];
    for round in 0..2 {
      let mut ch = Chooser::new(choices.clone(), u32::MAX);
      ch.want_labels = true;
      if round == 0 {
        println!("scenario: {}", job.name);
        println!("prefix:   {choices:?}");
      }
      let obs = run_one(job, &mut ch, true);
      if round == 0 {
        println!("choices:  {:?}", ch.choices());
        for l in &ch.labels {
          println!("  step  {l}");
        }
        for l in &obs.trace {
          println!("  trace {l}");
        }
        for v in &obs.viol {
          println!("  VIOLATES {} :: {}", v.class, v.detail);
        }
        if obs.aborted_by_panic {
          println!("  (library panicked: {})", LAST_PANIC.with(|p| p.borrow().clone()));
        }
      }
      outs.push((obs.outcome, obs.viol.len()));
    }
    let _ = tx.send(outs);
  });
  match rx.recv_timeout(std::time::Duration::from_secs(2 * HANG_SECS + 2)) {
    Ok(outs) => {
      if outs[0] != outs[1] {
        eprintln!("MACHINERY: replay not deterministic");
        return 2;
      }
      if outs[0].1 > 0 {
        1
      } else {
        0
      }
    }
    Err(_) => {
      println!("  VIOLATES hang:{} :: execution never returned (blocked for good)", jobs[idx].sig);
      1
    }
  }
}
