//! Uniform item / error domains shared by the implementation under test and the
//! reference models.
use std::fmt;
use std::ops::Add;

#[derive(Clone, PartialEq, Eq, PartialOrd, Ord)]
pub enum V {
  I(i64),
  B(bool),
  U,
  P(Box<V>, Box<V>),
  L(Vec<V>),
}

#[derive(Clone, Copy, PartialEq, Eq, Hash, PartialOrd, Ord, Debug)]
pub enum E {
  E0,
  E1,
}

impl E {
  pub fn swap(self) -> E {
    match self {
      E::E0 => E::E1,
      E::E1 => E::E0,
    }
  }
}

/// `Hash` is deliberately *coarser* than `Eq` (2k and 2k+1 collide, as do a
/// list and its sum): legal — equal values hash equally — and it makes anything
/// in the library that mistakes a hash for an identity (hash-only `distinct`,
/// `group_by` keyed on a digest) visible.
impl std::hash::Hash for V {
  fn hash<H: std::hash::Hasher>(&self, state: &mut H) {
    if PRECISE_HASH.with(|p| p.get()) {
      // the engine's own outcome fingerprints want the full structure
      match self {
        V::I(n) => {
          state.write_u8(0);
          state.write_i64(*n);
        }
        V::B(b) => {
          state.write_u8(1);
          state.write_u8(*b as u8);
        }
        V::U => state.write_u8(2),
        V::P(a, b) => {
          state.write_u8(3);
          a.hash(state);
          b.hash(state);
        }
        V::L(l) => {
          state.write_u8(4);
          state.write_usize(l.len());
          for x in l {
            x.hash(state);
          }
        }
      }
    } else {
      state.write_i64(self.num().div_euclid(2));
    }
  }
}

thread_local! {
  /// set by the runner while it fingerprints an outcome
  pub static PRECISE_HASH: std::cell::Cell<bool> = std::cell::Cell::new(false);
}

impl Default for V {
  fn default() -> Self {
    V::I(0)
  }
}

impl V {
  /// total numeric projection used by `sum`, `average`, predicates and keys.
  pub fn num(&self) -> i64 {
    match self {
      V::I(n) => *n,
      V::B(b) => *b as i64,
      V::U => 0,
      V::P(a, b) => a.num() + b.num(),
      V::L(l) => l.iter().map(|v| v.num()).sum(),
    }
  }
  pub fn pair(a: V, b: V) -> V {
    V::P(Box::new(a), Box::new(b))
  }
}

impl Add for V {
  type Output = V;
  fn add(self, o: V) -> V {
    V::I(self.num() + o.num())
  }
}

impl From<(V, V)> for V {
  fn from((a, b): (V, V)) -> V {
    V::pair(a, b)
  }
}
impl From<Vec<V>> for V {
  fn from(l: Vec<V>) -> V {
    V::L(l)
  }
}
impl From<bool> for V {
  fn from(b: bool) -> V {
    V::B(b)
  }
}
impl From<usize> for V {
  fn from(n: usize) -> V {
    V::I(n as i64)
  }
}
impl From<()> for V {
  fn from(_: ()) -> V {
    V::U
  }
}

impl fmt::Debug for V {
  fn fmt(&self, f: &mut fmt::Formatter<'_>) -> fmt::Result {
    match self {
      V::I(n) => write!(f, "{n}"),
      V::B(b) => write!(f, "{}", if *b { "T" } else { "F" }),
      V::U => write!(f, "()"),
      V::P(a, b) => write!(f, "({a:?},{b:?})"),
      V::L(l) => {
        write!(f, "[")?;
        for (i, v) in l.iter().enumerate() {
          if i > 0 {
            write!(f, ",")?;
          }
          write!(f, "{v:?}")?;
        }
        write!(f, "]")
      }
    }
  }
}

/// One notification as seen by a probe.
#[derive(Clone, PartialEq, Eq, Hash)]
pub enum Note {
  N(V),
  Err(E),
  C,
}

impl fmt::Debug for Note {
  fn fmt(&self, f: &mut fmt::Formatter<'_>) -> fmt::Result {
    match self {
      Note::N(v) => write!(f, "{v:?}"),
      Note::Err(e) => write!(f, "!{e:?}"),
      Note::C => write!(f, "|"),
    }
  }
}

impl Note {
  pub fn is_terminal(&self) -> bool {
    !matches!(self, Note::N(_))
  }
}

/// Terminal state of a modelled stream.
#[derive(Clone, Copy, PartialEq, Eq, Debug, Hash)]
pub enum T {
  Open,
  C,
  Err(E),
}

/// A finite observed / expected stream: items plus terminal state.
#[derive(Clone, PartialEq, Eq, Debug, Hash)]
pub struct Seq {
  pub items: Vec<V>,
  pub t: T,
}

impl Seq {
  pub fn open() -> Seq {
    Seq { items: vec![], t: T::Open }
  }
  pub fn notes(&self) -> Vec<Note> {
    let mut v: Vec<Note> = self.items.iter().cloned().map(Note::N).collect();
    match self.t {
      T::Open => {}
      T::C => v.push(Note::C),
      T::Err(e) => v.push(Note::Err(e)),
    }
    v
  }
  /// Build from a raw notification list, cutting at the first terminal.
  pub fn from_notes(ns: &[Note]) -> Seq {
    let mut s = Seq::open();
    for n in ns {
      match n {
        Note::N(v) => s.items.push(v.clone()),
        Note::C => {
          s.t = T::C;
          break;
        }
        Note::Err(e) => {
          s.t = T::Err(*e);
          break;
        }
      }
    }
    s
  }
}

pub fn fmt_notes(ns: &[Note]) -> String {
  let v: Vec<String> = ns.iter().map(|n| format!("{n:?}")).collect();
  v.join(" ")
}
