//! Reference semantics (DESIGN.md appendix B): boring list functions.
//! `Seq` = items so far + terminal state; every model is evaluated on every
//! prefix of the input history, so "emitted when" is part of what is compared.
use crate::ast::*;
use crate::val::*;
use std::collections::VecDeque;

fn vi(n: i64) -> V {
  V::I(n)
}

/// Cut a raw event list at its first terminal (what a subject / subscriber
/// lets through).
pub fn normalize(events: &[Note]) -> Seq {
  Seq::from_notes(events)
}

/// `None` = the statement / rustdoc does not fix the behaviour for this input.
pub fn op1(op: &Op1, inp: &Seq) -> Option<Seq> {
  let xs = &inp.items;
  let t = inp.t;
  let pass = |items: Vec<V>| Some(Seq { items, t });
  let only_on_complete = |items: Vec<V>| {
    Some(match t {
      T::C => Seq { items, t: T::C },
      other => Seq { items: vec![], t: other },
    })
  };
  match op {
    Op1::Map => pass(xs.iter().cloned().map(inc).collect()),
    Op1::MapTo(n) => pass(xs.iter().map(|_| vi(*n)).collect()),
    Op1::Filter(p) => pass(xs.iter().filter(|v| p.ev(v)).cloned().collect()),
    Op1::FilterMap(p) => {
      pass(xs.iter().filter(|v| p.ev(v)).cloned().map(inc).collect())
    }
    Op1::Tap | Op1::BoxIt | Op1::Timestamp => pass(xs.clone()),
    Op1::Take(n) => {
      if *n == 0 {
        // documented only for inputs that complete
        return match t {
          T::C => Some(Seq { items: vec![], t: T::C }),
          _ => None,
        };
      }
      if xs.len() >= *n {
        Some(Seq { items: xs[..*n].to_vec(), t: T::C })
      } else {
        pass(xs.clone())
      }
    }
    Op1::Skip(n) => pass(xs.iter().skip(*n).cloned().collect()),
    Op1::TakeWhile(p) | Op1::TakeWhileIncl(p) => {
      let incl = matches!(op, Op1::TakeWhileIncl(_));
      match xs.iter().position(|v| !p.ev(v)) {
        Some(i) => {
          let end = if incl { i + 1 } else { i };
          Some(Seq { items: xs[..end].to_vec(), t: T::C })
        }
        None => pass(xs.clone()),
      }
    }
    Op1::SkipWhile(p) => {
      let i = xs.iter().position(|v| !p.ev(v)).unwrap_or(xs.len());
      pass(xs[i..].to_vec())
    }
    Op1::TakeLast(n) => {
      let k = xs.len().saturating_sub(*n);
      only_on_complete(xs[k..].to_vec())
    }
    Op1::SkipLast(n) => pass(xs[..xs.len().saturating_sub(*n)].to_vec()),
    Op1::First => op1(&Op1::ElementAt(0), inp),
    Op1::ElementAt(k) => {
      if xs.len() > *k {
        Some(Seq { items: vec![xs[*k].clone()], t: T::C })
      } else {
        pass(vec![])
      }
    }
    Op1::FirstOr(d) => {
      if !xs.is_empty() {
        Some(Seq { items: vec![xs[0].clone()], t: T::C })
      } else if t == T::C {
        Some(Seq { items: vec![vi(*d)], t: T::C })
      } else {
        pass(vec![])
      }
    }
    Op1::Last => only_on_complete(xs.last().cloned().into_iter().collect()),
    Op1::LastOr(d) => {
      only_on_complete(vec![xs.last().cloned().unwrap_or(vi(*d))])
    }
    Op1::IgnoreElements => pass(vec![]),
    Op1::StartWith(vs) => {
      let mut o: Vec<V> = vs.iter().map(|n| vi(*n)).collect();
      o.extend(xs.iter().cloned());
      pass(o)
    }
    Op1::DefaultIfEmpty(d) => {
      if xs.is_empty() && t == T::C {
        Some(Seq { items: vec![vi(*d)], t: T::C })
      } else {
        pass(xs.clone())
      }
    }
    Op1::Scan | Op1::ScanInitial(_) => {
      let mut acc = match op {
        Op1::ScanInitial(i) => vi(*i),
        _ => V::default(),
      };
      let mut o = vec![];
      for x in xs {
        acc = acc + x.clone();
        o.push(acc.clone());
      }
      pass(o)
    }
    Op1::Reduce | Op1::ReduceInitial(_) | Op1::Sum => {
      let init = match op {
        Op1::ReduceInitial(i) => vi(*i),
        _ => V::default(),
      };
      let r = xs.iter().cloned().fold(init, |a, b| a + b);
      only_on_complete(vec![r])
    }
    Op1::Count => only_on_complete(vec![vi(xs.len() as i64)]),
    Op1::Min => {
      let mut m: Option<V> = None;
      for x in xs {
        m = Some(match m {
          Some(m) if m < *x => m,
          _ => x.clone(),
        });
      }
      only_on_complete(m.into_iter().collect())
    }
    Op1::Max => {
      let mut m: Option<V> = None;
      for x in xs {
        m = Some(match m {
          Some(m) if m > *x => m,
          _ => x.clone(),
        });
      }
      only_on_complete(m.into_iter().collect())
    }
    Op1::Average => {
      if xs.is_empty() {
        only_on_complete(vec![])
      } else {
        let s: f64 = xs.iter().map(|v| v.num() as f64).sum();
        only_on_complete(vec![avg_out(s * (1.0 / xs.len() as f64))])
      }
    }
    Op1::Distinct => {
      let mut seen: Vec<V> = vec![];
      let mut o = vec![];
      for x in xs {
        if !seen.contains(x) {
          seen.push(x.clone());
          o.push(x.clone());
        }
      }
      pass(o)
    }
    Op1::DistinctKey(k) => {
      let mut seen: Vec<V> = vec![];
      let mut o = vec![];
      for x in xs {
        let key = k.ev(x);
        if !seen.contains(&key) {
          seen.push(key);
          o.push(x.clone());
        }
      }
      pass(o)
    }
    Op1::DistinctUntilChanged => {
      let mut o: Vec<V> = vec![];
      for x in xs {
        if o.last() != Some(x) {
          o.push(x.clone());
        }
      }
      pass(o)
    }
    Op1::DistinctUntilKeyChanged(k) => {
      let mut o: Vec<V> = vec![];
      for x in xs {
        if o.last().map(|l| k.ev(l)) != Some(k.ev(x)) {
          o.push(x.clone());
        }
      }
      pass(o)
    }
    Op1::Pairwise => {
      pass(xs.windows(2).map(|w| V::pair(w[0].clone(), w[1].clone())).collect())
    }
    Op1::BufferWithCount(n) => {
      if *n == 0 {
        return None;
      }
      let mut o: Vec<V> = vec![];
      let full = xs.len() / n;
      for c in 0..full {
        o.push(V::L(xs[c * n..(c + 1) * n].to_vec()));
      }
      let rest = &xs[full * n..];
      match t {
        T::C => {
          if !rest.is_empty() {
            o.push(V::L(rest.to_vec()));
          }
          Some(Seq { items: o, t: T::C })
        }
        _ => pass(o),
      }
    }
    Op1::Contains(n) => {
      if xs.contains(&vi(*n)) {
        Some(Seq { items: vec![V::B(true)], t: T::C })
      } else if t == T::C {
        Some(Seq { items: vec![V::B(false)], t: T::C })
      } else {
        pass(vec![])
      }
    }
    Op1::All(p) => {
      if xs.iter().any(|v| !p.ev(v)) {
        Some(Seq { items: vec![V::B(false)], t: T::C })
      } else if t == T::C {
        Some(Seq { items: vec![V::B(true)], t: T::C })
      } else {
        pass(vec![])
      }
    }
    Op1::Collect => only_on_complete(vec![V::L(xs.clone())]),
    Op1::MapIdx => pass(xs.iter().enumerate().map(|(k, v)| vi(v.num() + 10 * k as i64)).collect()),
    Op1::FilterIdx => pass(xs.iter().enumerate().filter(|(k, _)| k % 2 == 0).map(|(_, v)| v.clone()).collect()),
    Op1::TakeWhileIdx(n) => {
      if xs.len() > *n {
        Some(Seq { items: xs[..*n].to_vec(), t: T::C })
      } else {
        pass(xs.clone())
      }
    }
    Op1::SkipWhileIdx(n) => pass(xs.iter().skip(*n).cloned().collect()),
    Op1::ScanIdx => {
      let mut acc = 0i64;
      let mut o = vec![];
      for (k, x) in xs.iter().enumerate() {
        acc = acc + x.num() + k as i64;
        o.push(vi(acc));
      }
      pass(o)
    }
    Op1::OnErrorMap => Some(Seq {
      items: xs.clone(),
      t: match t {
        T::Err(e) => T::Err(e.swap()),
        o => o,
      },
    }),
    Op1::OnComplete => Some(Seq { items: xs.clone(), t }),
    // the error ends in the handler: downstream sees no terminal at all
    Op1::OnError => Some(Seq {
      items: xs.clone(),
      t: match t {
        T::Err(_) => T::Open,
        o => o,
      },
    }),
    _ => None,
  }
}

/// What a cold source delivers at subscription (`None`: not a plain cold source).
pub fn src(s: &Src) -> Option<Seq> {
  let done = |items: Vec<V>| Some(Seq { items, t: T::C });
  match s {
    Src::Iter(items) | Src::IntoIter(items) => done(items.iter().map(|n| vi(*n)).collect()),
    Src::CreatePolling(n) => done((0..*n as i64).map(vi).collect()),
    Src::Create(script) => {
      let ns: Vec<Note> = script.iter().map(|n| n.note()).collect();
      Some(Seq::from_notes(&ns))
    }
    Src::Of(n) | Src::OfFn(n) | Src::Start(n) => done(vec![vi(*n)]),
    Src::OfOption(o) => done(o.iter().map(|n| vi(*n)).collect()),
    Src::OfResult(Ok(n)) => done(vec![vi(*n)]),
    Src::OfResult(Err(e)) => Some(Seq { items: vec![], t: T::Err(*e) }),
    Src::Repeat(n, k) => done((0..*k).map(|_| vi(*n)).collect()),
    Src::Empty => done(vec![]),
    Src::Never => Some(Seq::open()),
    Src::Throw(e) => Some(Seq { items: vec![], t: T::Err(*e) }),
    Src::Defer(inner) => src(inner),
    _ => None,
  }
}

/// Evaluate a single-input chain whose head is hot input 0 (given as `inp`) or
/// a cold source. `None` = some stage is unspecified for this input.
pub fn chain(p: &Pipe, inp: &Seq) -> Option<Seq> {
  match p {
    Pipe::S(Src::Hot(_)) | Pipe::S(Src::Raw(_)) => Some(inp.clone()),
    Pipe::S(s) => src(s),
    Pipe::O1(op, inner) => {
      let i = chain(inner, inp)?;
      op1(op, &i)
    }
    Pipe::O2(..) => None,
  }
}

// --------------------------------------------------------------- two inputs

/// merged timeline element: (port 0 = A / main, 1 = B / second, notification)
pub type Ev = (usize, Note);

/// Relaxed expectation for two-input operators.
#[derive(Clone, Debug, PartialEq)]
pub struct Exp2 {
  pub items: Vec<V>,
  /// exact terminal, when the definition fixes it
  pub t: Option<T>,
  /// when `t` is None: completion allowed / required?
  pub may_complete: bool,
  pub must_complete: bool,
}

fn exact(items: Vec<V>, t: T) -> Option<Exp2> {
  Some(Exp2 { items, t: Some(t), may_complete: false, must_complete: false })
}

/// Reference function from a merged timeline to the expected output.
/// `None`: unspecified for this timeline (see DESIGN.md §3).
pub fn op2(op: Op2, tl: &[Ev]) -> Option<Exp2> {
  // per-port normalisation: nothing passes after a port's first terminal
  let mut done = [false, false];
  let mut evs: Vec<Ev> = vec![];
  for (p, n) in tl {
    if done[*p] {
      continue;
    }
    if n.is_terminal() {
      done[*p] = true;
    }
    evs.push((*p, n.clone()));
  }
  let same_err_type = !matches!(op, Op2::TakeUntil | Op2::SkipUntil);
  let mut out: Vec<V> = vec![];
  // operator state, boring style
  let mut qa: VecDeque<V> = VecDeque::new();
  let mut qb: VecDeque<V> = VecDeque::new();
  let mut la: Option<V> = None;
  let mut lb: Option<V> = None;
  let mut completed = [false, false];
  let mut gate_open = false; // skip_until
  let mut pending: Option<V> = None; // sample
  let mut buf: Vec<V> = vec![]; // buffer
  let mut b_seen_item = false;
  for (p, n) in evs {
    match n {
      Note::Err(e) => {
        if p == 0 || same_err_type {
          return exact(out, T::Err(e));
        }
        // notifier error of take_until / skip_until: swallowed. For skip_until
        // before its first item: an error is not an item, "switch exactly at the
        // notifier's first item" keeps the gate closed (only the notifier
        // *completing* without an item is left unspecified, below)
      }
      Note::C => {
        completed[p] = true;
        match op {
          Op2::Merge => {
            if completed[0] && completed[1] {
              return exact(out, T::C);
            }
          }
          Op2::Zip | Op2::CombineLatest => {
            if completed[0] && completed[1] {
              return exact(out, T::C);
            }
          }
          Op2::WithLatestFrom | Op2::TakeUntil => {
            if p == 0 {
              return exact(out, T::C);
            }
          }
          Op2::SkipUntil => {
            if p == 0 {
              return exact(out, T::C);
            }
            if !b_seen_item {
              return None;
            }
          }
          Op2::Sample => {
            if p == 0 {
              return exact(out, T::C);
            }
            // sampler completion releases the pending item (documented)
            if let Some(v) = pending.take() {
              out.push(v);
            }
          }
          Op2::Buffer => {
            if p == 0 {
              if !buf.is_empty() {
                out.push(V::L(std::mem::take(&mut buf)));
              }
              return exact(out, T::C);
            }
            // the notifier completing ends the output: what was gathered since the
            // last tick is released (nothing, not an empty buffer, when nothing was)
            if !buf.is_empty() {
              out.push(V::L(std::mem::take(&mut buf)));
            }
            return exact(out, T::C);
          }
        }
      }
      Note::N(v) => match op {
        Op2::Merge => out.push(v),
        Op2::Zip => {
          if p == 0 {
            if let Some(b) = qb.pop_front() {
              out.push(V::pair(v, b));
            } else {
              qa.push_back(v);
            }
          } else if let Some(a) = qa.pop_front() {
            out.push(V::pair(a, v));
          } else {
            qb.push_back(v);
          }
        }
        Op2::CombineLatest => {
          if p == 0 {
            la = Some(v);
          } else {
            lb = Some(v);
          }
          if let (Some(a), Some(b)) = (&la, &lb) {
            out.push(V::pair(a.clone(), b.clone()));
          }
        }
        Op2::WithLatestFrom => {
          if p == 0 {
            if let Some(b) = &lb {
              out.push(V::pair(v, b.clone()));
            }
          } else {
            lb = Some(v);
          }
        }
        Op2::TakeUntil => {
          if p == 0 {
            out.push(v);
          } else {
            return exact(out, T::C);
          }
        }
        Op2::SkipUntil => {
          if p == 0 {
            if gate_open {
              out.push(v);
            }
          } else {
            gate_open = true;
            b_seen_item = true;
          }
        }
        Op2::Sample => {
          if p == 0 {
            pending = Some(v);
          } else if let Some(x) = pending.take() {
            out.push(x);
          }
        }
        Op2::Buffer => {
          if p == 0 {
            buf.push(v);
          } else if !buf.is_empty() {
            out.push(V::L(std::mem::take(&mut buf)));
          }
        }
      },
    }
  }
  // no terminal decided yet
  match op {
    Op2::Zip | Op2::CombineLatest => Some(Exp2 {
      items: out,
      t: None,
      // completion time is relaxed: allowed once one input completed
      may_complete: completed[0] || completed[1],
      must_complete: false,
    }),
    _ => exact(out, T::Open),
  }
}

pub fn exp2_matches(e: &Exp2, got: &Seq) -> bool {
  if e.items != got.items {
    // a relaxed early completion may legitimately cut the item list short
    if e.t.is_none() && e.may_complete && got.t == T::C && e.items.starts_with(&got.items) {
      return true;
    }
    return false;
  }
  match e.t {
    Some(t) => got.t == t,
    None => match got.t {
      T::Open => !e.must_complete,
      T::C => e.may_complete,
      T::Err(_) => false,
    },
  }
}

// --------------------------------------------------------------- flattening

/// Reference model of merge_all(limit) & friends over harness inner specs.
/// Events: outer item (selecting an inner), outer terminal, hot inner events.
#[derive(Clone, Debug)]
pub enum FlatEv {
  Outer(Note),
  /// event on hot input `i` (shared by every running inner bound to it)
  Hot(usize, Note),
}

pub struct FlatOut {
  pub out: Seq,
  pub max_live: usize,
}

pub fn flatten_model(limit: usize, inners: &[InnerSpec], evs: &[FlatEv]) -> FlatOut {
  #[derive(Clone)]
  struct Running {
    hot: usize,
  }
  let mut out = Seq::open();
  let mut running: Vec<Running> = vec![];
  let mut waiting: VecDeque<InnerSpec> = VecDeque::new();
  let mut outer_done = false;
  let mut max_live = 0usize;
  let mut hot_done: Vec<bool> = vec![false; 16];

  // start an inner; returns false when output terminated
  fn start(
    spec: &InnerSpec,
    out: &mut Seq,
    running: &mut Vec<Running>,
    hot_done: &[bool],
  ) -> Option<bool> {
    // Some(true): inner finished synchronously with completion
    match spec {
      InnerSpec::Cold(script) => {
        for n in script {
          match n {
            NoteSpec::N(v) => out.items.push(V::I(*v)),
            NoteSpec::Err(e) => {
              out.t = T::Err(*e);
              return None;
            }
            NoteSpec::C => return Some(true),
          }
        }
        // never terminates: occupies its slot forever
        running.push(Running { hot: usize::MAX });
        Some(false)
      }
      InnerSpec::Ticker(_) => {
        // timed inners are outside this (untimed) model: treated as never ending
        running.push(Running { hot: usize::MAX });
        Some(false)
      }
      InnerSpec::Hot(i) => {
        if hot_done[*i] {
          // a terminated subject hands out a closed subscriber: the inner
          // never completes, the slot stays occupied
          running.push(Running { hot: usize::MAX });
        } else {
          running.push(Running { hot: *i });
        }
        Some(false)
      }
    }
  }

  for ev in evs {
    if out.t != T::Open {
      break;
    }
    match ev {
      FlatEv::Outer(Note::N(v)) => {
        if outer_done {
          continue;
        }
        let spec = inners[(v.num().rem_euclid(inners.len() as i64)) as usize].clone();
        if running.len() < limit {
          let mut next = Some(spec);
          // a synchronously completing inner frees its slot at once and the
          // next waiting inner (if any) starts
          while let Some(s) = next.take() {
            match start(&s, &mut out, &mut running, &hot_done) {
              None => break,
              Some(true) => {
                if running.len() < limit {
                  next = waiting.pop_front();
                }
              }
              Some(false) => {}
            }
            max_live = max_live.max(running.len());
          }
        } else {
          waiting.push_back(spec);
        }
        max_live = max_live.max(running.len());
      }
      FlatEv::Outer(Note::Err(e)) => {
        if !outer_done {
          out.t = T::Err(*e);
        }
      }
      FlatEv::Outer(Note::C) => {
        outer_done = true;
      }
      FlatEv::Hot(i, n) => {
        if hot_done[*i] {
          continue;
        }
        match n {
          Note::N(v) => {
            for r in running.iter() {
              if r.hot == *i {
                out.items.push(v.clone());
              }
            }
          }
          Note::Err(e) => {
            hot_done[*i] = true;
            if running.iter().any(|r| r.hot == *i) {
              out.t = T::Err(*e);
            }
          }
          Note::C => {
            hot_done[*i] = true;
            let n_done = running.iter().filter(|r| r.hot == *i).count();
            running.retain(|r| r.hot != *i);
            // each completion hands its slot to the next waiting inner
            for _ in 0..n_done {
              let mut next = waiting.pop_front();
              while let Some(s) = next.take() {
                match start(&s, &mut out, &mut running, &hot_done) {
                  None => break,
                  Some(true) => next = waiting.pop_front(),
                  Some(false) => {}
                }
                max_live = max_live.max(running.len());
              }
              if out.t != T::Open {
                break;
              }
            }
          }
        }
      }
    }
    if out.t == T::Open && outer_done && running.is_empty() && waiting.is_empty() {
      out.t = T::C;
    }
  }
  FlatOut { out, max_live }
}
