//! Stateless exhaustive exploration: a harness body asks `choose(n)` at every
//! point where the environment could do something else; the driver
//! enumerates *every* sequence of answers depth first (re-executing the body
//! from scratch for each sequence), optionally bounding the number of
//! "deviations" (answers other than 0 at `choose_dev` points).
//!
//! Nothing here is random. An execution whose replayed prefix meets a choice
//! point with a different arity than recorded is a hard machinery error.

#[derive(Clone, Copy, Debug)]
pub struct Pt {
  pub chosen: u32,
  pub n: u32,
  pub costly: bool,
}

pub struct Chooser {
  prefix: Vec<u32>,
  pub trace: Vec<Pt>,
  dev_bound: u32,
  dev_used: u32,
  /// human readable labels of the choices taken (for replay files / samples)
  pub labels: Vec<String>,
  pub want_labels: bool,
}

impl Chooser {
  pub fn new(prefix: Vec<u32>, dev_bound: u32) -> Self {
    Chooser {
      prefix,
      trace: Vec::new(),
      dev_bound,
      dev_used: 0,
      labels: Vec::new(),
      want_labels: false,
    }
  }

  fn take(&mut self, n: usize, costly: bool) -> usize {
    assert!(n >= 1, "MACHINERY: choice point without options");
    let i = self.trace.len();
    let mut c = if i < self.prefix.len() { self.prefix[i] } else { 0 };
    if c as usize >= n {
      panic!(
        "MACHINERY: replay divergence at choice {i}: recorded {c}, only {n} options"
      );
    }
    if costly && c > 0 {
      if self.dev_used >= self.dev_bound {
        // can only happen when replaying a foreign prefix
        c = 0;
      } else {
        self.dev_used += 1;
      }
    }
    self.trace.push(Pt { chosen: c, n: n as u32, costly });
    c as usize
  }

  /// All `n` answers are explored, none is charged.
  pub fn choose(&mut self, n: usize) -> usize {
    self.take(n, false)
  }

  /// Answer 0 is the default behaviour; any other answer is one deviation.
  pub fn choose_dev(&mut self, n: usize) -> usize {
    if self.dev_bound == 0 {
      // keep the trace shape identical whatever the bound
      return self.take(1, true);
    }
    self.take(n, true)
  }

  pub fn label(&mut self, s: impl FnOnce() -> String) {
    if self.want_labels {
      self.labels.push(s());
    }
  }

  pub fn prefix(&self) -> &[u32] {
    &self.prefix
  }

  pub fn deviations(&self) -> u32 {
    self.dev_used
  }

  pub fn choices(&self) -> Vec<u32> {
    self.trace.iter().map(|p| p.chosen).collect()
  }
}

#[derive(Default, Clone, Debug)]
pub struct Stats {
  /// complete executions
  pub executions: u64,
  /// distinct nodes of the choice tree (distinct choice prefixes) visited
  pub states: u64,
  /// edges of the choice tree
  pub transitions: u64,
  /// choice points executed counting re-execution of prefixes
  pub steps_executed: u64,
  pub max_depth: u64,
  pub max_deviations: u32,
  pub capped: bool,
}

impl Stats {
  pub fn add(&mut self, o: &Stats) {
    self.executions += o.executions;
    self.states += o.states;
    self.transitions += o.transitions;
    self.steps_executed += o.steps_executed;
    self.max_depth = self.max_depth.max(o.max_depth);
    self.max_deviations = self.max_deviations.max(o.max_deviations);
    self.capped |= o.capped;
  }
}

/// Enumerate every execution of `body`. `body` returns `true` to continue,
/// `false` to abort the whole enumeration (e.g. enough violations kept).
pub fn explore_all(
  dev_bound: u32,
  max_execs: u64,
  body: impl FnMut(&mut Chooser) -> bool,
) -> Stats {
  explore_from(&[], dev_bound, max_execs, body)
}

/// Like `explore_all` but only the subtree below the fixed choice prefix
/// `root` (used to split one big tree over several workers).
pub fn explore_from(
  root: &[u32],
  dev_bound: u32,
  max_execs: u64,
  mut body: impl FnMut(&mut Chooser) -> bool,
) -> Stats {
  let mut stats = Stats::default();
  let mut prefix: Vec<u32> = root.to_vec();
  let mut shared = root.len(); // nodes of this prefix already counted
  loop {
    let mut ch = Chooser::new(prefix.clone(), dev_bound);
    let go_on = body(&mut ch);
    let tr = &ch.trace;
    stats.executions += 1;
    stats.steps_executed += tr.len() as u64;
    let fresh = tr.len().saturating_sub(shared) as u64;
    // the root counts once
    if stats.executions == 1 {
      stats.states += 1;
    }
    stats.states += fresh;
    stats.transitions += fresh;
    stats.max_depth = stats.max_depth.max(tr.len() as u64);
    stats.max_deviations = stats.max_deviations.max(ch.dev_used);
    if !go_on {
      stats.capped = true;
      return stats;
    }
    if stats.executions >= max_execs {
      stats.capped = true;
      return stats;
    }
    // find deepest point with an unexplored, affordable alternative
    let mut devs: Vec<u32> = Vec::with_capacity(tr.len());
    let mut d = 0;
    for p in tr.iter() {
      devs.push(d);
      if p.costly && p.chosen > 0 {
        d += 1;
      }
    }
    let mut next: Option<usize> = None;
    for i in (root.len().min(tr.len())..tr.len()).rev() {
      let p = tr[i];
      if p.chosen + 1 < p.n {
        if p.costly && p.chosen == 0 && devs[i] >= dev_bound {
          continue;
        }
        next = Some(i);
        break;
      }
    }
    match next {
      None => return stats,
      Some(i) => {
        prefix = tr[..i].iter().map(|p| p.chosen).collect();
        prefix.push(tr[i].chosen + 1);
        shared = i; // nodes 1..=i already counted; node i+1 is new
      }
    }
  }
}

#[cfg(test)]
mod tests {
  use super::*;
  #[test]
  fn counts_full_tree() {
    let mut leaves = 0;
    let st = explore_all(0, u64::MAX, |c| {
      c.choose(2);
      c.choose(3);
      leaves += 1;
      true
    });
    assert_eq!(leaves, 6);
    assert_eq!(st.executions, 6);
    assert_eq!(st.states, 1 + 2 + 6);
  }
  #[test]
  fn deviation_bound() {
    // 3 costly binary points, bound 1 => 1 + 3 executions
    let st = explore_all(1, u64::MAX, |c| {
      for _ in 0..3 {
        c.choose_dev(2);
      }
      true
    });
    assert_eq!(st.executions, 4);
    let st = explore_all(2, u64::MAX, |c| {
      for _ in 0..3 {
        c.choose_dev(2);
      }
      true
    });
    assert_eq!(st.executions, 7);
  }
}
