//! C01 — every subscriber sees items, then at most one terminal, then nothing.
use super::{tier_name, Plan, Tier};
use crate::ast::*;
use crate::catalogue::*;
use crate::drive::*;
use crate::probe::Probe;
use crate::report::{Finish, Job, Obs};
use crate::val::*;
use serde_json::json;

pub fn sig(p: &Pipe) -> String {
  fn walk(p: &Pipe, out: &mut Vec<&'static str>) {
    match p {
      Pipe::S(s) => out.push(super::c03::src_name(s)),
      Pipe::O1(op, i) => {
        walk(i, out);
        out.push(op.name());
      }
      Pipe::O2(op, a, b) => {
        walk(a, out);
        walk(b, out);
        out.push(op.name());
      }
    }
  }
  let mut v = vec![];
  walk(p, &mut v);
  v.retain(|n| *n != "subject");
  v.sort();
  v.dedup();
  v.join("+")
}

fn check_probe(obs: &mut Obs, pipe: &Pipe, form: Form, probe: &Probe, hist: &[String], who: &str) {
  obs.checks += 1;
  if !probe.grammar_ok() {
    obs.fail(
      format!("grammar:{}:{}", if form == Form::Local { "local" } else { "threads" }, sig(pipe)),
      format!(
        "{} [{:?}] {} after [{}] saw [{}]",
        pipe.show(),
        form,
        who,
        hist.join(" "),
        fmt_notes(&probe.notes())
      ),
    );
  }
}

/// drive `pipe` with every history of `len` actions over its hot inputs
/// (alphabet next(0) next(1) complete error per input, plus `tick` when the
/// pipeline uses a scheduler); `extra_probes` more probes are subscribed to the
/// same built pipeline when it is a multicast (share)
pub fn grammar_job(pipe: Pipe, form: Form, len: usize, second_sub: bool) -> Job {
  grammar_job_mode(pipe, form, len, second_sub, 0)
}

/// mode 0: the probe observer itself; 1 / 2: a subscriber assembled from
/// `on_error` + `on_complete` + `subscribe(next)` closures (error handler
/// attached first / second)
pub fn grammar_job_mode(pipe: Pipe, form: Form, len: usize, second_sub: bool, mode: u8) -> Job {
  let n_in = pipe.n_inputs().max(1);
  let timed = pipe.uses_time();
  let name = format!(
    "{} L{len}{}{} {}",
    if form == Form::Local { "local" } else { "threads" },
    if second_sub { " 2subs" } else { "" },
    match mode {
      1 => " callbacks(on_error.on_complete.subscribe)",
      2 => " callbacks(on_complete.on_error.subscribe)",
      _ => "",
    },
    pipe.show()
  );
  Job::new(name, move |ch, obs| {
    let mut r = Run::prepare(n_in, form);
    if mode == 0 {
      r.subscribe(&pipe);
    } else {
      let p = r.probe.clone();
      r.sub = r.subscribe_callbacks(&pipe, p, mode == 1);
    }
    let p2 = Probe::new();
    let mut _s2 = Sub::None;
    if second_sub {
      _s2 = r.subscribe_probe(&pipe, p2.clone());
    }
    r.drain();
    let mut hist: Vec<String> = vec![];
    let n_act = n_in * ALPHA4 + if timed { 1 } else { 0 };
    for _ in 0..len {
      let k = ch.choose(n_act);
      if k == n_in * ALPHA4 {
        ch.label(|| "tick".into());
        hist.push("tick".into());
        r.tick();
      } else {
        let (i, ev) = (k / ALPHA4, alpha4(k % ALPHA4));
        ch.label(|| format!("in{i} <- {ev:?}"));
        hist.push(format!("in{i}<-{ev:?}"));
        r.emit(i, &ev);
        r.drain();
      }
      check_probe(obs, &pipe, form, &r.probe, &hist, "probe");
      if second_sub {
        check_probe(obs, &pipe, form, &p2, &hist, "probe2");
      }
      if !obs.viol.is_empty() {
        break;
      }
    }
    if timed && obs.viol.is_empty() {
      // let everything that is still scheduled run out
      for _ in 0..3 {
        r.tick();
        check_probe(obs, &pipe, form, &r.probe, &hist, "probe(after ticks)");
      }
    }
    obs.delivered = (r.probe.len() + p2.len()) as u64;
    obs.note_outcome(&r.probe.notes());
    obs.note_outcome(&p2.notes());
    obs.log(|| format!("probe: [{}]", fmt_notes(&r.probe.notes())));
  })
}

fn cold_job(pipe: Pipe, form: Form) -> Job {
  let name = format!("{} cold {}", if form == Form::Local { "local" } else { "threads" }, pipe.show());
  Job::new(name, move |_ch, obs| {
    let mut r = Run::start(&pipe, form);
    r.drain();
    for _ in 0..3 {
      r.tick();
    }
    check_probe(obs, &pipe, form, &r.probe, &[], "probe");
    obs.delivered = r.probe.len() as u64;
    obs.note_outcome(&r.probe.notes());
    obs.log(|| format!("probe: [{}]", fmt_notes(&r.probe.notes())));
  })
}

pub fn all_ops(full: bool) -> Vec<Op1> {
  let mut v = list_ops(full);
  v.extend(sync_extra_ops());
  v.extend(time_ops(full));
  v
}

/// operators that keep state worth composing with two-input operators
pub fn stateful_ops() -> Vec<Op1> {
  let mut v = vec![
    Op1::Take(1),
    Op1::Take(2),
    Op1::Skip(1),
    Op1::TakeWhile(P::Lt1),
    Op1::TakeLast(1),
    Op1::SkipLast(1),
    Op1::First,
    Op1::FirstOr(9),
    Op1::Last,
    Op1::LastOr(9),
    Op1::DefaultIfEmpty(9),
    Op1::Reduce,
    Op1::Contains(1),
    Op1::All(P::Lt1),
    Op1::Collect,
    Op1::BufferWithCount(2),
    Op1::StartWith(vec![7]),
    Op1::Distinct,
    Op1::Pairwise,
    Op1::OnErrorMap,
  ];
  v.extend(sync_extra_ops());
  v.extend(time_ops(false));
  v
}

pub fn two_input_pipes(ops: &[Op1]) -> Vec<Pipe> {
  let mut out = vec![];
  for op2 in Op2::ALL {
    out.push(Pipe::hot(0).o2(op2, Pipe::hot(1)));
    // diamond: one hot input feeds both sides
    out.push(Pipe::hot(0).o2(op2, Pipe::hot(0)));
    out.push(Pipe::hot(0).o1(Op1::Map).o2(op2, Pipe::hot(0).o1(Op1::Skip(1))));
    // cold second / first input
    for c in [Src::Of(1), Src::Empty, Src::Throw(E::E1), Src::Iter(vec![0, 1]), Src::Never] {
      out.push(Pipe::hot(0).o2(op2, Pipe::S(c.clone())));
      out.push(Pipe::S(c).o2(op2, Pipe::hot(0)));
    }
    for op in ops {
      out.push(Pipe::hot(0).o1(op.clone()).o2(op2, Pipe::hot(1)));
      out.push(Pipe::hot(0).o2(op2, Pipe::hot(1).o1(op.clone())));
      out.push(Pipe::hot(0).o2(op2, Pipe::hot(1)).o1(op.clone()));
    }
    // nested two-input operators over three hot inputs
    for inner in Op2::ALL {
      out.push(Pipe::hot(0).o2(inner, Pipe::hot(1)).o2(op2, Pipe::hot(2)));
    }
  }
  out
}

pub fn flat_pipes() -> Vec<Pipe> {
  use InnerSpec::*;
  use NoteSpec::{C, N};
  let mut out = vec![];
  let kinds = [
    // boundary: no inner observable is ever admitted
    FlatKind::MergeAll(0),
    FlatKind::MergeAll(1),
    FlatKind::MergeAll(2),
    FlatKind::ConcatAll,
    FlatKind::Flatten,
    FlatKind::FlatMap,
    FlatKind::ConcatMap,
  ];
  for k in kinds {
    out.push(Pipe::hot(0).o1(Op1::Flat(k, vec![Hot(1), Cold(vec![N(5), C])])));
    out.push(Pipe::hot(0).o1(Op1::Flat(k, vec![Hot(1), Hot(1)])));
    out.push(Pipe::hot(0).o1(Op1::Flat(k, vec![Hot(1), Cold(vec![NoteSpec::Err(E::E1)])])));
    out.push(Pipe::hot(0).o1(Op1::Flat(k, vec![Hot(1), Hot(2)])));
    out.push(Pipe::hot(0).o1(Op1::Flat(k, vec![Hot(1), Cold(vec![N(5)])])).o1(Op1::Take(2)));
    out.push(Pipe::hot(0).o1(Op1::Flat(k, vec![Ticker(1), Cold(vec![N(5), C])])));
  }
  out
}

pub fn plan(tier: Tier) -> Plan {
  let mut jobs = vec![];
  let (chain_ops, depth, len, len2) = match tier {
    Tier::Quick => (all_ops(false), 2, 4, 4),
    Tier::Thorough => (all_ops(false), 3, 4, 5),
  };
  let forms = [Form::Local, Form::Threads];
  let mut n_pipes = 0u64;
  for form in forms {
    // depth-1 chains with the full parameter sets, longer histories
    for p in chains(&Pipe::hot(0), &all_ops(true), 1) {
      n_pipes += 1;
      jobs.push(grammar_job(p.clone(), form, len + 1, false));
    }
    for p in chains(&Pipe::S(Src::Raw(0)), &all_ops(true), 1) {
      n_pipes += 1;
      jobs.push(grammar_job(p, form, len, false));
    }
    // the callback-assembled subscriber (on_error / on_complete / subscribe)
    for mode in [1u8, 2] {
      jobs.push(grammar_job_mode(Pipe::hot(0), form, len + 1, false, mode));
      for p in chains(&Pipe::hot(0), &all_ops(false), 1) {
        n_pipes += 1;
        jobs.push(grammar_job_mode(p, form, len, false, mode));
      }
      for op2 in Op2::ALL {
        n_pipes += 1;
        jobs.push(grammar_job_mode(Pipe::hot(0).o2(op2, Pipe::hot(1)), form, len2, false, mode));
      }
    }
    for p in chains(&Pipe::hot(0), &chain_ops, depth) {
      if p.depth() < 2 {
        continue;
      }
      n_pipes += 1;
      jobs.push(grammar_job(p, form, len, false));
    }
    for p in two_input_pipes(&stateful_ops()) {
      n_pipes += 1;
      let l = if p.n_inputs() >= 3 { len2.min(4) } else { len2 };
      jobs.push(grammar_job(p, form, l, false));
    }
    for p in flat_pipes() {
      n_pipes += 1;
      jobs.push(grammar_job(p, form, len2, false));
    }
    // multicast: two subscribers of one shared pipeline
    for op in stateful_ops() {
      n_pipes += 1;
      jobs.push(grammar_job(Pipe::hot(0).o1(op.clone()).o1(Op1::Share), form, len, true));
      jobs.push(grammar_job(Pipe::hot(0).o1(Op1::Share).o1(op), form, len, true));
    }
    // cold sources under every operator
    for s in cold_sources() {
      for p in chains(&Pipe::S(s), &all_ops(false), 1) {
        n_pipes += 1;
        jobs.push(cold_job(p, form));
      }
    }
    for s in [Src::Interval(1), Src::Timer(3, 1), Src::IntervalAt(1, 1), Src::TimerAt(3, 2)] {
      for p in chains(&Pipe::S(s), &all_ops(false), 1) {
        n_pipes += 1;
        jobs.push(cold_job(p, form));
      }
    }
  }
  Plan {
    jobs,
    finish: Finish {
      prop: "C01".into(),
      tier: tier_name(tier),
      engine: "E1 opseq".into(),
      rule: "every pipeline of the generator (chains of the whole catalogue up to the depth bound, every two-input operator over two/three hot inputs with one extra stage on either side or after it, diamonds, cold second inputs, flattening over hot and cold inners, share with two subscribers; local and _threads forms) x every action history up to the length bound over {next(0), next(1), complete, error} per hot input (+ tick when a scheduler is involved; FIFO-prompt executor), events continue after terminals and all terminals go through cloned handles; monitor `next* (error|complete)?` on every probe after every action; non-trivial = at least one notification reached a probe".into(),
      bounds: json!({"chain_depth": depth, "history_len_chains": len, "history_len_two_input": len2, "pipelines": n_pipes}),
      assumptions: vec!["scheduler model: FIFO-prompt (LocalPool order); other run orders are explored under C02/C07".into()],
    },
  }
}
