//! C08 — time and async sources emit exactly what and when they promise.
use super::{tier_name, Plan, Tier};
use crate::ast::*;
use crate::drive::*;
use crate::probe::Probe;
use crate::report::{Finish, Job, Obs};
use crate::val::*;
use crate::world::{self, World};
use futures::Stream;
use rxrust::prelude::*;
use serde_json::json;
use std::convert::Infallible;
use std::future::Future;
use std::pin::Pin;
use std::sync::{Arc, Mutex};
use std::task::{Context, Poll, Waker};

fn inf(e: Infallible) -> E {
  match e {}
}

// ------------------------------------------------------------ scripted async

#[derive(Clone, Copy, Debug, PartialEq, Eq, Hash)]
pub enum Step {
  Item(i64),
  Pending,
  Fail,
  End,
}

#[derive(Default)]
struct ScriptState {
  pos: usize,
  /// the harness has released the current `Pending` step
  released: bool,
  waker: Option<Waker>,
  polls: usize,
}

#[derive(Clone)]
pub struct Script {
  steps: Arc<Vec<Step>>,
  st: Arc<Mutex<ScriptState>>,
}

impl Script {
  pub fn new(steps: Vec<Step>) -> Script {
    Script { steps: Arc::new(steps), st: Arc::new(Mutex::new(ScriptState::default())) }
  }
  /// is the script parked on a `Pending` step that has not been released?
  pub fn parked(&self) -> bool {
    let s = self.st.lock().unwrap();
    s.waker.is_some() && !s.released
  }
  pub fn release(&self) {
    let w = {
      let mut s = self.st.lock().unwrap();
      s.released = true;
      s.waker.take()
    };
    if let Some(w) = w {
      w.wake();
    }
  }
  pub fn polls(&self) -> usize {
    self.st.lock().unwrap().polls
  }
  /// items the script will still yield (what an honest, exact `size_hint` reports)
  fn remaining_items(&self, fail_is_item: bool) -> usize {
    let pos = self.st.lock().unwrap().pos;
    let mut n = 0;
    for st in self.steps.iter().skip(pos) {
      match st {
        Step::Item(_) => n += 1,
        Step::Fail => {
          if fail_is_item {
            n += 1;
          }
          break;
        }
        Step::End => break,
        Step::Pending => {}
      }
    }
    n
  }
  fn poll_step(&self, cx: &mut Context<'_>) -> Poll<Step> {
    let mut s = self.st.lock().unwrap();
    s.polls += 1;
    loop {
      let step = self.steps.get(s.pos).copied().unwrap_or(Step::End);
      match step {
        Step::Pending => {
          if s.released {
            s.released = false;
            s.pos += 1;
            continue;
          }
          s.waker = Some(cx.waker().clone());
          return Poll::Pending;
        }
        Step::End => return Poll::Ready(Step::End),
        other => {
          s.pos += 1;
          return Poll::Ready(other);
        }
      }
    }
  }
}

pub struct PlainStream(pub Script);
impl Stream for PlainStream {
  type Item = V;
  fn poll_next(self: Pin<&mut Self>, cx: &mut Context<'_>) -> Poll<Option<V>> {
    match self.0.poll_step(cx) {
      Poll::Pending => Poll::Pending,
      Poll::Ready(Step::Item(n)) => Poll::Ready(Some(V::I(n))),
      // a plain stream cannot fail: `Fail` ends it
      Poll::Ready(_) => Poll::Ready(None),
    }
  }
  /// exact, like `stream::iter` / `stream::empty`
  fn size_hint(&self) -> (usize, Option<usize>) {
    let n = self.0.remaining_items(false);
    (n, Some(n))
  }
}
pub struct TryStream(pub Script);
impl Stream for TryStream {
  type Item = Result<V, E>;
  fn poll_next(self: Pin<&mut Self>, cx: &mut Context<'_>) -> Poll<Option<Result<V, E>>> {
    match self.0.poll_step(cx) {
      Poll::Pending => Poll::Pending,
      Poll::Ready(Step::Item(n)) => Poll::Ready(Some(Ok(V::I(n)))),
      Poll::Ready(Step::Fail) => Poll::Ready(Some(Err(E::E1))),
      Poll::Ready(_) => Poll::Ready(None),
    }
  }
  fn size_hint(&self) -> (usize, Option<usize>) {
    let n = self.0.remaining_items(true);
    (n, Some(n))
  }
}
/// future: resolves to the first Item / Fail of the script
pub struct PlainFut(pub Script);
impl Future for PlainFut {
  type Output = V;
  fn poll(self: Pin<&mut Self>, cx: &mut Context<'_>) -> Poll<V> {
    match self.0.poll_step(cx) {
      Poll::Pending => Poll::Pending,
      Poll::Ready(Step::Item(n)) => Poll::Ready(V::I(n)),
      Poll::Ready(_) => Poll::Ready(V::U),
    }
  }
}
pub struct TryFut(pub Script);
impl Future for TryFut {
  type Output = Result<V, E>;
  fn poll(self: Pin<&mut Self>, cx: &mut Context<'_>) -> Poll<Result<V, E>> {
    match self.0.poll_step(cx) {
      Poll::Pending => Poll::Pending,
      Poll::Ready(Step::Item(n)) => Poll::Ready(Ok(V::I(n))),
      Poll::Ready(Step::Fail) => Poll::Ready(Err(E::E1)),
      Poll::Ready(_) => Poll::Ready(Ok(V::U)),
    }
  }
}

#[derive(Clone, Copy, Debug, PartialEq, Eq)]
pub enum Relay {
  FromFuture,
  FromFutureResult,
  FromStream,
  FromStreamResult,
}

/// expected relay output for a script that is driven to its end
pub fn relay_model(kind: Relay, steps: &[Step], released: usize) -> Seq {
  let mut out = Seq::open();
  let mut rel = released;
  for s in steps.iter().chain(std::iter::once(&Step::End)) {
    match (kind, s) {
      (_, Step::Pending) => {
        if rel == 0 {
          return out;
        }
        rel -= 1;
      }
      (Relay::FromFuture, Step::Item(n)) => {
        out.items.push(V::I(*n));
        out.t = T::C;
        return out;
      }
      (Relay::FromFuture, _) => {
        out.items.push(V::U);
        out.t = T::C;
        return out;
      }
      (Relay::FromFutureResult, Step::Item(n)) => {
        out.items.push(V::I(*n));
        out.t = T::C;
        return out;
      }
      (Relay::FromFutureResult, Step::Fail) => {
        out.t = T::Err(E::E1);
        return out;
      }
      (Relay::FromFutureResult, Step::End) => {
        out.items.push(V::U);
        out.t = T::C;
        return out;
      }
      (_, Step::Item(n)) => out.items.push(V::I(*n)),
      (Relay::FromStreamResult, Step::Fail) => {
        out.t = T::Err(E::E1);
        return out;
      }
      (_, _) => {
        out.t = T::C;
        return out;
      }
    }
  }
  out
}

// ------------------------------------------------------------ environment

/// One environment step under the deviation-bounded any-order model.
/// Returns a label. `extra`: harness specific actions offered next to the clock.
pub enum Act {
  Run(usize),
  Advance(u64),
  Extra(usize),
}

pub fn env_step(
  w: &World,
  ch: &mut crate::explore::Chooser,
  jumps: &[u64],
  n_extra: usize,
) -> Act {
  let ready = w.ready_len();
  let mut menu: Vec<Act> = vec![];
  for k in 0..ready {
    menu.push(Act::Run(k));
  }
  for j in jumps {
    menu.push(Act::Advance(*j));
  }
  for e in 0..n_extra {
    menu.push(Act::Extra(e));
  }
  let idx = if ready > 0 { ch.choose_dev(menu.len()) } else { ch.choose(menu.len()) };
  menu.swap_remove(idx)
}

fn time_src_job(src: Src, len: usize, devs: u32, jumps: Vec<u64>) -> Job {
  let pipe = Pipe::S(src.clone());
  Job::new(format!("{} L{len} d<={devs} jumps{jumps:?}", pipe.show()), move |ch, obs| {
    let mut r = Run::prepare(1, Form::Local);
    // a competing task in the same pool
    let other = Probe::new();
    let _o = observable::interval(world::ticks(1), r.world.sched.clone())
      .map(V::from)
      .on_error_map(inf)
      .actual_subscribe(other.clone());
    // the observable value may be built some ticks before it is subscribed (a
    // stored pipeline, a clone subscribed later): periods count from subscription
    let op = build_local(&pipe, &r.cx);
    let t0 = ch.choose(3) as u64;
    ch.label(|| format!("subscribed {t0} ticks after the observable was built"));
    r.world.skew(t0);
    r.sub = Sub::L(op.actual_subscribe(r.probe.clone()));
    // the executor may get its first chance to poll anything only some ticks
    // after the subscription was made
    let late = ch.choose(3) as u64;
    ch.label(|| format!("executor starts {late} ticks after subscription"));
    r.world.skew(late);
    r.world.settle();
    let mut hist: Vec<String> = vec![format!("built-then-subscribed-at({t0})"), format!("late-start({late})")];
    // interval arms its first timer at subscription: a late start that is still
    // before the first due time must not shift any tick. One-shot timers arm on
    // their first poll, for them a late start counts like a jump.
    let first_due: u64 = match &src {
      Src::Interval(p) => *p,
      Src::IntervalAt(off, _) => (*off).max(0) as u64,
      _ => 0,
    };
    let mut jumped = late > 0 && late >= first_due.max(1);
    if matches!(src, Src::Timer(..) | Src::TimerAt(..)) && late > 0 {
      jumped = true;
    }
    for _ in 0..len {
      world::bump_step();
      match env_step(&r.world, ch, &jumps, 0) {
        Act::Run(k) => {
          ch.label(|| format!("run({k})"));
          hist.push(format!("run({k})"));
          r.world.run_ready(k);
        }
        Act::Advance(n) => {
          ch.label(|| format!("advance({n})"));
          hist.push(format!("advance({n})"));
          if n > 1 {
            jumped = true;
          }
          r.world.advance(n);
        }
        Act::Extra(_) => unreachable!(),
      }
      check_time_src(obs, &src, &r.probe, &hist, ch.deviations() == 0 && !jumped, r.world.ready_len() == 0, t0);
      if !obs.viol.is_empty() {
        break;
      }
    }
    obs.delivered = r.probe.len() as u64;
    obs.note_outcome(&r.probe.recs().iter().map(|x| (x.note.clone(), x.vt)).collect::<Vec<_>>());
    obs.log(|| {
      format!(
        "probe: {:?}",
        r.probe.recs().iter().map(|x| format!("{:?}@{}", x.note, x.vt)).collect::<Vec<_>>()
      )
    });
  })
  .devs(devs)
}

fn check_time_src(obs: &mut Obs, src: &Src, probe: &Probe, hist: &[String], prompt: bool, quiescent: bool, t0: u64) {
  obs.checks += 1;
  let recs = probe.recs();
  let now = world::now();
  let name = super::c03::src_name(src);
  let mut fail = |obs: &mut Obs, clause: &str, msg: String| {
    obs.fail(
      format!("c08:{clause}:{name}"),
      format!(
        "{src:?} after [{}] (t={now}): {msg}; saw {:?}",
        hist.join(" "),
        recs.iter().take(12).map(|x| format!("{:?}@{}", x.note, x.vt)).collect::<Vec<_>>()
      ),
    );
  };
  match src {
    Src::Interval(p) | Src::IntervalAt(_, p) => {
      // t0 = time of subscription. The `_at` forms read their instant against the
      // real clock, which stands still in the virtual world (a tick is 1000 s): the
      // time remaining until the instant is the same whenever it is computed, so
      // for them the gap between building and subscribing only shifts everything
      let first_due: u64 = match src {
        Src::Interval(p) => t0 + *p,
        Src::IntervalAt(off, _) => t0 + (*off).max(0) as u64,
        _ => unreachable!(),
      };
      // an instant that is not in the future means: fire at once
      let specified_first = true;
      for (k, x) in recs.iter().enumerate() {
        if x.note != Note::N(V::I(k as i64)) {
          fail(obs, "values", format!("item {k} is {:?}", x.note));
          return;
        }
        if k == 0 && x.vt < first_due {
          fail(obs, "early", format!("first tick at t={} but due at t={first_due}", x.vt));
          return;
        }
        if k > 0 && x.vt < recs[k - 1].vt + p {
          fail(obs, "early", format!("tick {k} at t={} less than one period ({p}) after the previous", x.vt));
          return;
        }
        if prompt && specified_first && x.vt != first_due + k as u64 * p {
          fail(obs, "late", format!("executor ran as timers fell due, tick {k} expected at t={} but came at t={}", first_due + k as u64 * p, x.vt));
          return;
        }
      }
      if prompt && quiescent && specified_first {
        let want = if now >= first_due { (now - first_due) / p + 1 } else { 0 };
        if recs.len() as u64 != want {
          fail(obs, "missing", format!("expected {want} ticks by now"));
        }
      }
    }
    Src::Timer(v, _) | Src::TimerAt(v, _) => {
      let due: u64 = match src {
        Src::Timer(_, d) => t0 + *d,
        Src::TimerAt(_, off) => t0 + (*off).max(0) as u64,
        _ => unreachable!(),
      };
      let notes: Vec<Note> = recs.iter().map(|x| x.note.clone()).collect();
      let full = vec![Note::N(V::I(*v)), Note::C];
      if !(notes.is_empty() || notes == full) {
        fail(obs, "values", "expected the item once, then completion".into());
        return;
      }
      if let Some(x) = recs.first() {
        if x.vt < due {
          fail(obs, "early", format!("fired at t={} but due at t={due}", x.vt));
        } else if prompt && x.vt != due {
          fail(obs, "late", format!("executor ran as timers fell due, expected at t={due}, came at t={}", x.vt));
        }
      } else if prompt && quiescent && now >= due {
        fail(obs, "missing", format!("due at t={due}, nothing delivered"));
      }
    }
    _ => {}
  }
}

/// The virtual clock drives the timers, not `Instant::now()`. A source that
/// measures its first period against the real clock from the moment it was
/// *built* is invisible on the virtual time line, but not in what it asks the
/// timer seam for: the observable is built, real time passes, it is subscribed,
/// and the first timer request must still be the full configured duration.
fn real_gap_job(src: Src) -> Job {
  let pipe = Pipe::S(src.clone());
  Job::new(format!("{} built, 12 ms of real time pass, then subscribed", pipe.show()), move |_ch, obs| {
    let mut r = Run::prepare(1, Form::Local);
    let op = build_local(&pipe, &r.cx);
    std::thread::sleep(std::time::Duration::from_millis(12));
    r.sub = Sub::L(op.actual_subscribe(r.probe.clone()));
    r.world.settle();
    r.world.drain_fifo(50);
    let want = match &src {
      Src::Interval(p) => world::ticks(*p),
      Src::Timer(_, d) => world::ticks(*d),
      _ => unreachable!(),
    };
    obs.checks += 1;
    let log = world::timer_log();
    match log.first() {
      Some(req) if req.dur == want => {}
      other => obs.fail(
        format!("c08:first-period-not-from-subscription:{}", super::c03::src_name(&src)),
        format!(
          "{src:?} was built 12 ms before it was subscribed; its first timer request should be the full {want:?}, it was {:?}",
          other.map(|r| r.dur)
        ),
      ),
    }
    obs.delivered = 1;
    obs.note_outcome(&log.first().map(|r| r.dur));
  })
}

/// A one-shot time source observed by a subscriber that reports itself finished
/// after `k` notifications (`take(1)` below a timer answers that once the item
/// has passed): "emit their item once ... and then complete" — the completion
/// is still handed on (`on_complete`, `finalize`, `complete_status` above the
/// `take` rely on it).
fn sated_timer_job(src: Src, k: usize) -> Job {
  let pipe = Pipe::S(src.clone());
  Job::new(format!("sated-after-{k} {}", pipe.show()), move |_ch, obs| {
    let mut r = Run::prepare(1, Form::Local);
    let o = Sated { probe: r.probe.clone(), k };
    r.sub = Sub::L(build_local(&pipe, &r.cx).actual_subscribe(o));
    r.world.settle();
    for _ in 0..6 {
      r.world.drain_fifo(50);
      r.world.advance(1);
    }
    r.world.drain_fifo(50);
    obs.checks += 1;
    let got = r.probe.notes();
    let v = match &src {
      Src::Timer(v, _) | Src::TimerAt(v, _) => *v,
      _ => unreachable!(),
    };
    let full = vec![Note::N(V::I(v)), Note::C];
    if !(got == full || (k == 0 && got == vec![Note::C])) {
      obs.fail(
        format!("c08:to-finished-observer:{}", super::c03::src_name(&src)),
        format!(
          "{src:?} observed by a subscriber that reports finished after {k} notifications: expected the item and then the completion, delivered [{}]",
          fmt_notes(&got)
        ),
      );
    }
    obs.delivered = got.len() as u64;
    obs.note_outcome(&got);
  })
}

/// "never earlier than that": the instant of an `_at` source lives on the real
/// clock. When the source asks the timer seam for its first wait, the real time
/// of the request plus the requested duration must not lie before the instant
/// (a duration rounded *down*, e.g. to whole milliseconds, does).
fn instant_job(src: Src) -> Job {
  let pipe = Pipe::S(src.clone());
  Job::new(format!("{} first wait against the real clock", pipe.show()), move |_ch, obs| {
    crate::ast::INSTANTS.with(|l| l.borrow_mut().clear());
    let mut r = Run::prepare(1, Form::Local);
    let op = build_local(&pipe, &r.cx);
    let at = crate::ast::INSTANTS.with(|l| l.borrow().last().copied());
    r.sub = Sub::L(op.actual_subscribe(r.probe.clone()));
    r.world.settle();
    r.world.drain_fifo(50);
    obs.checks += 1;
    if let (Some(at), Some(req)) = (at, world::timer_log().first().cloned()) {
      if req.wall + req.dur < at {
        obs.fail(
          format!("c08:first-wait-ends-before-the-instant:{}", super::c03::src_name(&src)),
          format!(
            "{src:?}: the first timer was requested for {:?}, which ends {:?} before the given instant",
            req.dur,
            at - (req.wall + req.dur)
          ),
        );
      }
    }
    obs.delivered = 1;
    obs.note_outcome(&0u8);
  })
}

fn relay_job(kind: Relay, script_len: usize, len: usize, devs: u32) -> Job {
  Job::new(format!("{kind:?} scripts<={script_len} L{len} d<={devs}"), move |ch, obs| {
    // the script is part of the explored space
    let mut steps: Vec<Step> = vec![];
    for _ in 0..script_len {
      let k = ch.choose(6);
      let s = match k {
        0 => Step::Item(0),
        1 => Step::Item(1),
        2 => Step::Pending,
        3 => Step::Fail,
        4 => Step::End,
        _ => break,
      };
      steps.push(s);
      if matches!(s, Step::End | Step::Fail) {
        break;
      }
    }
    ch.label(|| format!("script {steps:?}"));
    let script = Script::new(steps.clone());
    let mut w = World::new();
    let other = Probe::new();
    let _o = observable::timer(V::I(9), world::ticks(1), w.sched.clone())
      .on_error_map(inf)
      .actual_subscribe(other.clone());
    let probe = Probe::new();
    let sched = w.sched.clone();
    let _u: BoxSubscription<'static> = match kind {
      Relay::FromFuture => BoxSubscription::new(
        observable::from_future(PlainFut(script.clone()), sched).on_error_map(inf).actual_subscribe(probe.clone()),
      ),
      Relay::FromFutureResult => BoxSubscription::new(
        observable::from_future_result(TryFut(script.clone()), sched).actual_subscribe(probe.clone()),
      ),
      Relay::FromStream => BoxSubscription::new(
        observable::from_stream(PlainStream(script.clone()), sched).on_error_map(inf).actual_subscribe(probe.clone()),
      ),
      Relay::FromStreamResult => BoxSubscription::new(
        observable::from_stream_result(TryStream(script.clone()), sched).actual_subscribe(probe.clone()),
      ),
    };
    w.settle();
    let mut released = 0usize;
    let mut hist: Vec<String> = vec![];
    for _ in 0..len {
      world::bump_step();
      let n_extra = script.parked() as usize;
      match env_step(&w, ch, &[1], n_extra) {
        Act::Run(k) => {
          ch.label(|| format!("run({k})"));
          hist.push(format!("run({k})"));
          w.run_ready(k);
        }
        Act::Advance(n) => {
          ch.label(|| format!("advance({n})"));
          hist.push(format!("advance({n})"));
          w.advance(n);
        }
        Act::Extra(_) => {
          ch.label(|| "wake the pending future/stream".into());
          hist.push("wake".into());
          released += 1;
          script.release();
          w.settle();
        }
      }
      obs.checks += 1;
      // safety at every step: a prefix of what the script allows so far
      let exp = relay_model(kind, &steps, released);
      let got = probe.notes();
      let en = exp.notes();
      if !(en.len() >= got.len() && en[..got.len()] == got[..]) {
        obs.fail(
          format!("c08:relay:{kind:?}"),
          format!(
            "script {steps:?} after [{}]: expected a prefix of [{}] got [{}]",
            hist.join(" "),
            fmt_notes(&en),
            fmt_notes(&got)
          ),
        );
        break;
      }
      // liveness at quiescence: everything the script allows has been relayed
      if w.ready_len() == 0 && !script.parked() && got != en {
        // the relay task may still be waiting behind its gate only if ready>0
        obs.fail(
          format!("c08:relay-incomplete:{kind:?}"),
          format!(
            "script {steps:?} after [{}]: nothing left to run, expected [{}] got [{}]",
            hist.join(" "),
            fmt_notes(&en),
            fmt_notes(&got)
          ),
        );
        break;
      }
    }
    obs.delivered = probe.len() as u64;
    obs.note_outcome(&probe.notes());
    obs.note_outcome(&steps);
    obs.log(|| format!("probe: [{}] polls of the script {}", fmt_notes(&probe.notes()), script.polls()));
  })
  .devs(devs)
}

/// from_stream over a stream that has `n` items ready at once
fn burst_job(n: usize, result_twin: bool) -> Job {
  let pipe = Pipe::S(if result_twin { Src::StreamResultCount(n) } else { Src::StreamCount(n) });
  let twin = if result_twin { "_result" } else { "" };
  Job::new(format!("from_stream{twin} burst of {n} ready items"), move |_ch, obs| {
    let mut r = Run::start(&pipe, Form::Local);
    r.drain();
    for _ in 0..3 {
      r.tick();
    }
    obs.checks += 1;
    let got = r.probe.notes();
    let mut exp: Vec<Note> = (0..n as i64).map(|i| Note::N(V::I(i))).collect();
    exp.push(Note::C);
    if got != exp {
      obs.fail(
        if result_twin { "c08:relay-incomplete:FromStreamResult" } else { "c08:relay-incomplete:FromStream" },
        format!(
          "from_stream{twin} over a stream with {n} ready items: nothing left to run, {} notifications relayed, last {:?}",
          got.len(),
          got.last()
        ),
      );
    }
    obs.delivered = got.len() as u64;
    obs.note_outcome(&got.len());
  })
}

pub fn plan(tier: Tier) -> Plan {
  let (len, devs, jumps, slen, rlen): (usize, u32, Vec<u64>, usize, usize) = match tier {
    Tier::Quick => (9, 2, vec![1, 2, 3], 4, 8),
    Tier::Thorough => (12, 3, vec![1, 2, 3, 4], 5, 10),
  };
  let mut jobs = vec![];
  let mut srcs = vec![];
  for p in [1u64, 2, 3] {
    srcs.push(Src::Interval(p));
    srcs.push(Src::Timer(4, p));
    for off in [-1i64, 0, 1, 2, 3] {
      srcs.push(Src::IntervalAt(off, p));
    }
  }
  for off in [-1i64, 0, 1, 2, 3] {
    srcs.push(Src::TimerAt(4, off));
  }
  for s in &srcs {
    jobs.push(time_src_job(s.clone(), len, devs, jumps.clone()));
    // the prompt single-step world, longer
    jobs.push(time_src_job(s.clone(), len + 3, 0, vec![1]));
  }
  for k in [Relay::FromFuture, Relay::FromFutureResult, Relay::FromStream, Relay::FromStreamResult] {
    jobs.push(relay_job(k, slen, rlen, devs));
  }
  // long bursts: many items ready within one poll of the relay task
  for src in [Src::Interval(1), Src::Interval(2), Src::Timer(7, 1)] {
    jobs.push(real_gap_job(src));
  }
  for src in [Src::IntervalAt(1, 1), Src::IntervalAt(2, 1), Src::IntervalAt(3, 2), Src::TimerAt(7, 1), Src::TimerAt(7, 2)] {
    jobs.push(instant_job(src));
  }
  for src in [Src::Timer(7, 1), Src::Timer(7, 2), Src::TimerAt(7, 2), Src::TimerAt(7, -1)] {
    for k in 0..3 {
      jobs.push(sated_timer_job(src.clone(), k));
    }
  }
  for n in [31usize, 32, 33, 63, 64, 65, 100, 127, 128, 129, 255, 256, 257, 1000, 1025, 4097] {
    jobs.push(burst_job(n, false));
    jobs.push(burst_job(n, true));
  }
  Plan {
    jobs,
    finish: Finish {
      prop: "C08".into(),
      tier: tier_name(tier),
      engine: "E1 opseq".into(),
      rule: "interval / interval_at / timer / timer_at with periods, delays and instants from {1,2,3} ticks (instants also 0 and in the past) next to a competing interval in the same pool: every environment sequence up to the length bound over {advance 1..k ticks, run the i-th ready task}, where running a task other than the first ready one or advancing the clock while a task is ready costs one deviation (bounded); from_future(_result) / from_stream(_result) over every script up to the length bound of {item, pending-until-woken, fail, end} with {run, advance, wake} steps; oracle after every step: consecutive integers, never earlier than due / one period after the previous, exactly on time whenever no deviation and no jump occurred, relays deliver exactly the scripted prefix and everything once nothing is left to run; non-trivial = something was delivered".into(),
      bounds: json!({"env_len": len, "deviations": devs, "jumps": jumps, "script_len": slen, "relay_env_len": rlen, "sources": srcs.len()}),
      assumptions: vec!["interval_at / timer_at with an instant that is not in the future fire at once (the code turns such an instant into a zero delay, and the crate has a test saying so for timer_at)".into()],
    },
  }
}
