//! C07 — scheduler-moving operators preserve the source's sequence.
use super::c08::{env_step, Act};
use super::{tier_name, Plan, Tier};
use crate::ast::*;
use crate::drive::*;
use crate::report::{Finish, Job, Obs};
use crate::val::*;
use crate::world;
use serde_json::json;

fn form_name(f: Form) -> &'static str {
  if f == Form::Local {
    "local"
  } else {
    "threads"
  }
}

/// configured minimum delay (ticks) between production and delivery
fn min_delay(op: &Op1) -> u64 {
  match op {
    Op1::Delay(d) => *d,
    Op1::DelayAt(off) => (*off).max(0) as u64,
    _ => 0,
  }
}

fn is_multiset_sub(got: &[Note], exp: &[Note]) -> bool {
  let mut pool: Vec<&Note> = exp.iter().collect();
  for g in got {
    match pool.iter().position(|e| *e == g) {
      Some(i) => {
        pool.swap_remove(i);
      }
      None => return false,
    }
  }
  true
}

/// hot source through one notification-moving operator
fn moving_job(op: Op1, form: Form, len: usize, devs: u32, feedback: bool) -> Job {
  let pipe = Pipe::hot(0).o1(op.clone());
  let d = min_delay(&op);
  let opname = op.name();
  let fb = if feedback { " +feedback" } else { "" };
  Job::new(format!("{} L{len} d<={devs} {}{fb}", form_name(form), pipe.show()), move |ch, obs| {
    let mut r = Run::prepare(1, form);
    // source side: (note, virtual time of production)
    let produced: std::sync::Arc<std::sync::Mutex<Vec<(Note, u64)>>> = Default::default();
    let src_over = std::sync::Arc::new(std::sync::atomic::AtomicBool::new(false));
    if feedback {
      // a feedback loop: on its first item the subscriber emits one more item
      // into the source. The delivery runs in a scheduled task, not inside the
      // source's own `next`, so this is ordinary use, not re-entrancy.
      use rxrust::prelude::Observer;
      let (pr, mut hl, mut ht) = (produced.clone(), r.cx.hot_l[0].clone(), r.cx.hot_t[0].clone());
      let mut done = false;
      let over = src_over.clone();
      r.probe = crate::probe::Probe::with_hook(move |_v: &V| {
        // (a terminated source takes nothing more)
        if !done && !over.load(std::sync::atomic::Ordering::SeqCst) {
          done = true;
          pr.lock().unwrap().push((Note::N(V::I(100)), world::now()));
          if form == Form::Local {
            hl.next(V::I(100));
          } else {
            ht.next(V::I(100));
          }
        }
      });
    }
    r.subscribe(&pipe);
    r.world.settle();
    let mut hist: Vec<String> = vec![];
    let mut src_done = false;
    let mut seq = 0i64;
    let mut reordered = false;
    // did the executor ever run a ready task other than the first one? Only then
    // can independent one-shot tasks have overtaken each other (the known
    // finding); a late executor alone keeps the FIFO order of the tasks
    let mut ran_out_of_order = false;
    let fail = |obs: &mut Obs, clause: &str, hist: &Vec<String>, msg: String| {
      obs.fail(
        format!("c07:{clause}:{opname}:{}", form_name(form)),
        format!("{} after [{}]: {msg}", pipe.show(), hist.join(" ")),
      );
    };
    for step in 0..len + 8 {
      world::bump_step();
      let closing = step >= len; // horizon reached: let everything run out, FIFO
      let act = if closing {
        if r.world.ready_len() > 0 {
          Act::Run(0)
        } else if world::live_timers() > 0 {
          Act::Advance(1)
        } else {
          break;
        }
      } else {
        // extras: next, complete, error on the hot input
        env_step(&r.world, ch, &[1], if src_done { 0 } else { 3 })
      };
      match act {
        Act::Run(k) => {
          ch.label(|| format!("run({k})"));
          hist.push(format!("run({k})"));
          if k > 0 {
            ran_out_of_order = true;
          }
          r.world.run_ready(k);
        }
        Act::Advance(n) => {
          ch.label(|| format!("advance({n})"));
          hist.push(format!("advance({n})"));
          r.world.advance(n);
        }
        Act::Extra(e) => {
          let note = match e {
            0 => {
              seq += 1;
              Note::N(V::I(seq))
            }
            1 => Note::C,
            _ => Note::Err(E::E0),
          };
          ch.label(|| format!("src <- {note:?}"));
          hist.push(format!("src<-{note:?}"));
          if note.is_terminal() {
            src_done = true;
            src_over.store(true, std::sync::atomic::Ordering::SeqCst);
          }
          produced.lock().unwrap().push((note.clone(), world::now()));
          r.emit(0, &note);
          r.world.settle();
        }
      }
      obs.checks += 1;
      let recs = r.probe.recs();
      let got: Vec<Note> = recs.iter().map(|x| x.note.clone()).collect();
      let produced_now: Vec<(Note, u64)> = produced.lock().unwrap().clone();
      let exp: Vec<Note> = produced_now.iter().map(|x| x.0.clone()).collect();
      let fifo = ch.deviations() == 0;
      // never early, never invented, never duplicated — under every run order
      if !is_multiset_sub(&got, &exp) {
        fail(obs, "invented-or-duplicated", &hist, format!("source [{}] delivered [{}]", fmt_notes(&exp), fmt_notes(&got)));
        break;
      }
      let mut early = false;
      for x in &recs {
        if let Note::N(_) = x.note {
          let at = produced_now.iter().find(|p| p.0 == x.note).map(|p| p.1).unwrap_or(0);
          if x.vt < at + d {
            fail(obs, "early", &hist, format!("{:?} produced at t={at} delivered at t={} (delay {d})", x.note, x.vt));
            early = true;
          } else if fifo && x.vt != at + d && !closing {
            fail(obs, "late", &hist, format!("{:?} produced at t={at} delivered at t={} although the executor ran promptly (delay {d})", x.note, x.vt));
            early = true;
          }
        }
      }
      if early {
        break;
      }
      // every delivery of a delaying operator was preceded by a timer request of
      // exactly the configured duration (the only way a delay shorter than a
      // virtual tick shows)
      let cfg: Option<std::time::Duration> = match &op {
        Op1::Delay(d) if *d > 0 => Some(world::ticks(*d)),
        Op1::DelayMicros(n) => Some(std::time::Duration::from_micros(*n)),
        _ => None,
      };
      if let Some(cfg) = cfg {
        let asked = world::timer_log().iter().filter(|r| r.dur == cfg).count();
        let delayed = got.iter().filter(|n| !matches!(n, Note::Err(_))).count();
        if asked < delayed {
          fail(obs, "delay-not-awaited", &hist, format!("{delayed} delayed notifications were delivered but only {asked} timers of {cfg:?} were ever requested"));
          break;
        }
      }
      // order: items in source order, a failing source may cut the items short
      let failing = matches!(exp.last(), Some(Note::Err(_)));
      let ordered_ok = if failing {
        let items: Vec<Note> = exp[..exp.len() - 1].to_vec();
        let gi: Vec<Note> = got.iter().filter(|n| !n.is_terminal()).cloned().collect();
        let term_ok = got.iter().filter(|n| n.is_terminal()).count() <= 1
          && got.iter().position(|n| n.is_terminal()).map_or(true, |i| i + 1 == got.len());
        items.starts_with(&gi) && term_ok
      } else {
        exp.starts_with(&got)
      };
      if !ordered_ok {
        if fifo || !ran_out_of_order {
          fail(obs, "order", &hist, format!("source [{}] delivered [{}]", fmt_notes(&exp), fmt_notes(&got)));
          break;
        } else if !reordered {
          // any-order executor: independent one-shot tasks overtook each
          // other; recorded once, the other clauses keep being checked
          reordered = true;
          fail(obs, "any-order-reorder", &hist, format!("source [{}] delivered [{}]", fmt_notes(&exp), fmt_notes(&got)));
        }
      }
    }
    // everything has run out: completeness
    if (obs.viol.is_empty() || (reordered && obs.viol.len() == 1)) && r.world.idle() {
      let got = r.probe.notes();
      let exp: Vec<Note> = produced.lock().unwrap().iter().map(|x| x.0.clone()).collect();
      let failing = matches!(exp.last(), Some(Note::Err(_)));
      let complete = if failing { got.last() == exp.last() } else { got == exp };
      obs.checks += 1;
      // a terminal that overtook items silences them: part of the reorder finding
      let overtaken = reordered && got.last().map_or(false, |n| n.is_terminal());
      let mut sorted_ok = false;
      if reordered && !overtaken {
        sorted_ok = is_multiset_sub(&exp, &got);
      }
      if !complete && !overtaken && !sorted_ok {
        let clause = if !ran_out_of_order { "lost" } else { "any-order-lost" };
        fail(obs, clause, &hist, format!("everything ran out; source [{}] delivered [{}]", fmt_notes(&exp), fmt_notes(&got)));
      }
    }
    obs.delivered = r.probe.len() as u64;
    obs.note_outcome(&r.probe.recs().iter().map(|x| (x.note.clone(), x.vt)).collect::<Vec<_>>());
    obs.log(|| format!("probe: {:?}", r.probe.recs().iter().map(|x| format!("{:?}@{}", x.note, x.vt)).collect::<Vec<_>>()));
  })
  .devs(devs)
}

/// subscription-moving operators over cold scripts and a hot subject
fn subscription_job(op: Op1, head: Src, len: usize, devs: u32) -> Job {
  let pipe = Pipe::S(head.clone()).o1(op.clone());
  let d: u64 = match &op {
    Op1::DelaySubscription(d) => *d,
    Op1::DelaySubscriptionAt(off) => (*off).max(0) as u64,
    _ => 0,
  };
  let opname = op.name();
  let hot = matches!(head, Src::Defer(ref i) if matches!(**i, Src::Hot(_)));
  Job::new(format!("local L{len} d<={devs} {}", pipe.show()), move |ch, obs| {
    let mut r = Run::start(&pipe, Form::Local);
    r.world.settle();
    let mut hist: Vec<String> = vec![];
    let mut after_sub: Vec<Note> = vec![];
    let mut src_done = false;
    let mut seq = 0i64;
    let mut subscribed_at: Option<u64> = None;
    for step in 0..len + 6 {
      world::bump_step();
      let closing = step >= len;
      let act = if closing {
        if r.world.ready_len() > 0 {
          Act::Run(0)
        } else if world::live_timers() > 0 {
          Act::Advance(1)
        } else {
          break;
        }
      } else {
        env_step(&r.world, ch, &[1], if hot && !src_done { 3 } else { 0 })
      };
      match act {
        Act::Run(k) => {
          ch.label(|| format!("run({k})"));
          hist.push(format!("run({k})"));
          r.world.run_ready(k);
        }
        Act::Advance(n) => {
          ch.label(|| format!("advance({n})"));
          hist.push(format!("advance({n})"));
          r.world.advance(n);
        }
        Act::Extra(e) => {
          let note = match e {
            0 => {
              seq += 1;
              Note::N(V::I(seq))
            }
            1 => Note::C,
            _ => Note::Err(E::E0),
          };
          ch.label(|| format!("src <- {note:?}"));
          hist.push(format!("src<-{note:?}"));
          if note.is_terminal() {
            src_done = true;
          }
          if subscribed_at.is_some() {
            after_sub.push(note.clone());
          }
          r.emit(0, &note);
          r.world.settle();
        }
      }
      let subs = Counters::get(&r.cx.ctr.src_calls);
      if subs > 0 && subscribed_at.is_none() {
        subscribed_at = Some(world::now());
      }
      obs.checks += 1;
      let fail = |obs: &mut Obs, clause: &str, msg: String| {
        obs.fail(
          format!("c07:{clause}:{opname}:local"),
          format!("{} after [{}]: {msg}", pipe.show(), hist.join(" ")),
        );
      };
      if subs > 1 {
        fail(obs, "subscribed-twice", format!("source subscribed {subs} times"));
        break;
      }
      if let Some(t) = subscribed_at {
        if t < d {
          fail(obs, "early", format!("source subscribed at t={t}, configured delay {d}"));
          break;
        }
        if ch.deviations() == 0 && t != d {
          fail(obs, "late", format!("source subscribed at t={t} although the executor ran promptly, configured delay {d}"));
          break;
        }
      }
      let exp: Vec<Note> = if hot {
        Seq::from_notes(&after_sub).notes()
      } else if subscribed_at.is_some() {
        crate::model::src(match &head {
          Src::Defer(i) => i,
          o => o,
        })
        .map(|s| s.notes())
        .unwrap_or_default()
      } else {
        vec![]
      };
      let got = r.probe.notes();
      if got != exp {
        fail(obs, "sequence", format!("expected [{}] got [{}]", fmt_notes(&exp), fmt_notes(&got)));
        break;
      }
    }
    if obs.viol.is_empty() && subscribed_at.is_none() {
      obs.fail(
        format!("c07:never-subscribed:{opname}:local"),
        format!("{} after [{}]: everything ran out, the source was never subscribed", pipe.show(), hist.join(" ")),
      );
    }
    obs.delivered = r.probe.len() as u64;
    obs.note_outcome(&r.probe.notes());
    obs.note_outcome(&subscribed_at);
    obs.log(|| format!("probe: [{}] source subscribed at {subscribed_at:?}", fmt_notes(&r.probe.notes())));
  })
  .devs(devs)
}

pub fn plan(tier: Tier) -> Plan {
  let (len, devs, len0) = match tier {
    Tier::Quick => (11, 3, 15),
    Tier::Thorough => (15, 5, 22),
  };
  let mut jobs = vec![];
  let moving = vec![
    Op1::ObserveOn,
    Op1::Delay(0),
    Op1::DelayMicros(900),
    Op1::Delay(1),
    Op1::Delay(2),
    Op1::DelayAt(-2),
    Op1::DelayAt(0),
    Op1::DelayAt(1),
    Op1::DelayAt(2),
  ];
  for form in [Form::Local, Form::Threads] {
    for op in &moving {
      jobs.push(moving_job(op.clone(), form, len0, 0, false));
      jobs.push(moving_job(op.clone(), form, len, devs, false));
    }
    for op in [Op1::ObserveOn, Op1::Delay(1), Op1::Delay(0)] {
      jobs.push(moving_job(op, form, len - 2, devs - 1, true));
    }
  }
  let sub_ops = vec![
    Op1::SubscribeOn,
    Op1::DelaySubscription(1),
    Op1::DelaySubscription(2),
    Op1::DelaySubscriptionAt(-1),
    Op1::DelaySubscriptionAt(1),
    Op1::DelaySubscriptionAt(2),
  ];
  use NoteSpec::{C, N};
  let heads = vec![
    Src::Defer(Box::new(Src::Hot(0))),
    Src::Defer(Box::new(Src::Iter(vec![0, 1]))),
    Src::Create(vec![N(0), NoteSpec::Err(E::E1)]),
    Src::Create(vec![N(0), N(1)]),
    Src::Create(vec![C]),
  ];
  for op in &sub_ops {
    for h in &heads {
      jobs.push(subscription_job(op.clone(), h.clone(), len, devs));
    }
  }
  Plan {
    jobs,
    finish: Finish {
      prop: "C07".into(),
      tier: tier_name(tier),
      engine: "E1 opseq".into(),
      rule: "observe_on, delay(1|2), delay_at(now-2..now+2) in local and _threads form over a hot source, and subscribe_on, delay_subscription(1|2), delay_subscription_at(now-1..now+2) over cold scripts and a hot source: every sequence up to the length bound over {source next/complete/error, advance one tick, run the i-th ready task}; scheduler models: FIFO-prompt (deviation bound 0, longer histories) and any-order/late with a bounded number of deviations (running another ready task than the first, or letting the clock/source move while a task is ready); afterwards everything is run out; observe_on / delay also with a subscriber that, on its first item, emits one more item into the source (a feedback loop through the scheduler). Oracle after every step: nothing invented or duplicated, no item before production + configured delay (for _at: the time remaining to the instant), exactly then when no deviation occurred, source order kept, all items + terminal once everything ran out; non-trivial = something was delivered".into(),
      bounds: json!({"len_fifo": len0, "len_any_order": len, "deviations": devs}),
      assumptions: vec!["task bodies are atomic in the any-order model".into()],
    },
  }
}
