//! C09 — rate-limiting operators never invent, duplicate or reorder items.
use super::c08::{env_step, Act};
use super::{tier_name, Plan, Tier};
use crate::ast::*;
use crate::drive::*;
use crate::report::{Finish, Job, Obs};
use crate::val::*;
use crate::world;
use serde_json::json;

#[derive(Clone, Debug)]
enum TEv {
  Src(Note),
  Advance,
}

/// timed list model under the prompt executor (timers run as they fall due,
/// a timer that is due at the instant of a source event has already run)
fn prompt_model(op: &Op1, evs: &[TEv]) -> Vec<Note> {
  let mut out: Vec<Note> = vec![];
  let mut now = 0u64;
  let mut done = false;
  // debounce
  let mut pending: Option<(V, u64)> = None;
  // throttle
  let mut window_end: Option<u64> = None;
  let mut trailing: Option<V> = None;
  // sample
  let mut latest: Option<V> = None;
  // stateful selector: number of windows opened so far
  let mut windows_opened = 0usize;
  // buffers
  let mut buf: Vec<V> = vec![];
  for ev in evs {
    if done {
      break;
    }
    match ev {
      TEv::Advance => {
        now += 1;
        match op {
          Op1::Debounce(_) => {
            if let Some((v, due)) = pending.clone() {
              if due <= now {
                out.push(Note::N(v));
                pending = None;
              }
            }
          }
          Op1::ThrottleTime(..) | Op1::ThrottleBy(_) | Op1::ThrottleCalls(_) => {
            if window_end == Some(now) {
              window_end = None;
              if let Some(v) = trailing.take() {
                out.push(Note::N(v));
              }
            }
          }
          Op1::SampleInterval(p) => {
            if now % p == 0 {
              if let Some(v) = latest.take() {
                out.push(Note::N(v));
              }
            }
          }
          Op1::BufferWithTime(w) | Op1::BufferWithCountAndTime(_, w) => {
            if now % w == 0 && !buf.is_empty() {
              out.push(Note::N(V::L(std::mem::take(&mut buf))));
            }
          }
          _ => unreachable!(),
        }
      }
      TEv::Src(Note::N(v)) => match op {
        Op1::Debounce(w) => pending = Some((v.clone(), now + w)),
        Op1::ThrottleTime(_, edge) | Op1::ThrottleBy(edge) | Op1::ThrottleCalls(edge) => {
          // the selector is asked once per window, for the item that opens it
          let w = match op {
            Op1::ThrottleTime(w, _) => *w,
            Op1::ThrottleCalls(_) => {
              if window_end.is_none() {
                windows_opened += 1;
                throttle_calls_window(windows_opened - 1)
              } else {
                0
              }
            }
            _ => throttle_by_window(v),
          };
          if edge.tailing() {
            trailing = Some(v.clone());
          }
          if window_end.is_none() {
            if edge.leading() {
              out.push(Note::N(v.clone()));
              // delivered on the leading edge: not a trailing candidate
              trailing = None;
            }
            window_end = Some(now + w);
          }
        }
        Op1::SampleInterval(_) => latest = Some(v.clone()),
        Op1::BufferWithTime(_) => buf.push(v.clone()),
        Op1::BufferWithCountAndTime(n, _) => {
          buf.push(v.clone());
          if buf.len() >= *n {
            out.push(Note::N(V::L(std::mem::take(&mut buf))));
          }
        }
        _ => unreachable!(),
      },
      TEv::Src(Note::C) => {
        match op {
          Op1::Debounce(_) => {
            if let Some((v, _)) = pending.take() {
              out.push(Note::N(v));
            }
          }
          Op1::ThrottleTime(..) | Op1::ThrottleBy(_) | Op1::ThrottleCalls(_) => {
            if let Some(v) = trailing.take() {
              out.push(Note::N(v));
            }
          }
          Op1::SampleInterval(_) => {}
          _ => {
            if !buf.is_empty() {
              out.push(Note::N(V::L(std::mem::take(&mut buf))));
            }
          }
        }
        out.push(Note::C);
        done = true;
      }
      TEv::Src(Note::Err(e)) => {
        out.push(Note::Err(*e));
        done = true;
      }
    }
  }
  out
}

fn flatten_items(notes: &[Note], buffers: bool) -> Vec<V> {
  let mut v = vec![];
  for n in notes {
    if let Note::N(x) = n {
      match (buffers, x) {
        (true, V::L(l)) => v.extend(l.iter().cloned()),
        _ => v.push(x.clone()),
      }
    }
  }
  v
}

fn rate_job(op: Op1, form: Form, len: usize, devs: u32) -> Job {
  let pipe = Pipe::hot(0).o1(op.clone());
  let opname = match &op {
    Op1::ThrottleTime(_, e) | Op1::ThrottleBy(e) | Op1::ThrottleCalls(e) => format!("{}({e:?})", op.name()),
    _ => op.name().to_string(),
  };
  let buffers = matches!(op, Op1::BufferWithTime(_) | Op1::BufferWithCountAndTime(..));
  let count_limit = match op {
    Op1::BufferWithCountAndTime(n, _) => Some(n),
    _ => None,
  };
  Job::new(format!("{form:?} L{len} d<={devs} {}", pipe.show()), move |ch, obs| {
    let mut r = Run::start(&pipe, form);
    r.world.settle();
    let mut hist: Vec<String> = vec![];
    let mut evs: Vec<TEv> = vec![];
    let mut src_items: Vec<V> = vec![];
    let mut src_term: Option<Note> = None;
    let mut seq = 0i64;
    let fail = |obs: &mut Obs, clause: &str, hist: &Vec<String>, msg: String| {
      obs.fail(
        format!("c09:{clause}:{opname}"),
        format!("{} after [{}]: {msg}", pipe.show(), hist.join(" ")),
      );
    };
    for step in 0..len + 4 {
      world::bump_step();
      let closing = step >= len;
      let act = if closing {
        if r.world.ready_len() > 0 {
          Act::Run(0)
        } else {
          Act::Advance(1)
        }
      } else {
        env_step(&r.world, ch, &[1], if src_term.is_some() { 0 } else { 3 })
      };
      match act {
        Act::Run(k) => {
          ch.label(|| format!("run({k})"));
          hist.push(format!("run({k})"));
          r.world.run_ready(k);
        }
        Act::Advance(n) => {
          ch.label(|| format!("advance({n})"));
          hist.push(format!("advance({n})"));
          evs.push(TEv::Advance);
          r.world.advance(n);
        }
        Act::Extra(e) => {
          let note = match e {
            0 => {
              seq += 1;
              Note::N(V::I(seq))
            }
            1 => Note::C,
            _ => Note::Err(E::E0),
          };
          ch.label(|| format!("src <- {note:?}"));
          hist.push(format!("src<-{note:?}"));
          match &note {
            Note::N(v) => src_items.push(v.clone()),
            t => src_term = Some(t.clone()),
          }
          evs.push(TEv::Src(note.clone()));
          r.emit(0, &note);
          r.world.settle();
        }
      }
      obs.checks += 1;
      let got = r.probe.notes();
      // ---- generic clauses, under every run order
      if !r.probe.grammar_ok() {
        fail(obs, "after-terminal", &hist, format!("delivered [{}]", fmt_notes(&got)));
        break;
      }
      let flat = flatten_items(&got, buffers);
      // subsequence of the source, each at most once, source order
      let mut pos = 0usize;
      let mut ok = true;
      for x in &flat {
        match src_items[pos..].iter().position(|s| s == x) {
          Some(i) => pos += i + 1,
          None => {
            ok = false;
            break;
          }
        }
      }
      if !ok {
        fail(
          obs,
          "invented-duplicated-or-reordered",
          &hist,
          format!("source items {src_items:?} delivered [{}]", fmt_notes(&got)),
        );
        break;
      }
      if buffers {
        for n in &got {
          if let Note::N(V::L(l)) = n {
            if l.is_empty() || count_limit.map_or(false, |c| l.len() > c) {
              fail(obs, "buffer-size", &hist, format!("delivered [{}]", fmt_notes(&got)));
              break;
            }
          }
        }
        if got.last() == Some(&Note::C) && flat != src_items {
          fail(
            obs,
            "buffer-loss",
            &hist,
            format!("source completed, items {src_items:?}, buffers concatenate to {flat:?}"),
          );
          break;
        }
      }
      match (&src_term, got.last()) {
        (Some(Note::Err(e)), _) => {
          if got.last() != Some(&Note::Err(*e)) && r.world.ready_len() == 0 {
            fail(obs, "error-not-forwarded", &hist, format!("delivered [{}]", fmt_notes(&got)));
            break;
          }
        }
        (None, Some(t)) if t.is_terminal() => {
          fail(obs, "terminal-invented", &hist, format!("delivered [{}]", fmt_notes(&got)));
          break;
        }
        _ => {}
      }
      // ---- exact timed model when the executor ran promptly
      // (a zero-length window has no timed model of its own: the generic clauses decide)
      let zero_window = matches!(&op, Op1::Debounce(0) | Op1::ThrottleTime(0, _));
      if ch.deviations() == 0 && r.world.ready_len() == 0 && !zero_window {
        let exp = prompt_model(&op, &evs);
        if exp != got {
          fail(
            obs,
            "timing",
            &hist,
            format!("prompt executor: expected [{}] got [{}]", fmt_notes(&exp), fmt_notes(&got)),
          );
          break;
        }
      }
    }
    obs.delivered = r.probe.len() as u64;
    obs.note_outcome(&r.probe.recs().iter().map(|x| (x.note.clone(), x.vt)).collect::<Vec<_>>());
    obs.log(|| format!("probe: {:?}", r.probe.recs().iter().map(|x| format!("{:?}@{}", x.note, x.vt)).collect::<Vec<_>>()));
  })
  .devs(devs)
}

pub fn plan(tier: Tier) -> Plan {
  let (len0, len, devs) = match tier {
    Tier::Quick => (12, 10, 2),
    Tier::Thorough => (19, 15, 4),
  };
  let mut ops = vec![];
  for w in [1u64, 2] {
    ops.push(Op1::Debounce(w));
    for e in [Edge::Leading, Edge::Tailing, Edge::All] {
      ops.push(Op1::ThrottleTime(w, e));
    }
    ops.push(Op1::SampleInterval(w));
    ops.push(Op1::BufferWithTime(w));
    ops.push(Op1::BufferWithCountAndTime(2, w));
  }
  for e in [Edge::Leading, Edge::Tailing, Edge::All] {
    ops.push(Op1::ThrottleBy(e));
    ops.push(Op1::ThrottleCalls(e));
  }
  // boundary: zero-length windows
  ops.push(Op1::Debounce(0));
  for e in [Edge::Leading, Edge::Tailing, Edge::All] {
    ops.push(Op1::ThrottleTime(0, e));
  }
  ops.push(Op1::BufferWithCountAndTime(1, 2));
  ops.push(Op1::BufferWithCountAndTime(3, 1));
  // "cut by time only"
  ops.push(Op1::BufferWithCountAndTime(usize::MAX, 1));
  let mut jobs = vec![];
  for op in &ops {
    jobs.push(rate_job(op.clone(), Form::Local, len0, 0));
    jobs.push(rate_job(op.clone(), Form::Local, len, devs));
    if matches!(op, Op1::SampleInterval(_)) {
      jobs.push(rate_job(op.clone(), Form::Threads, len0, 0));
      jobs.push(rate_job(op.clone(), Form::Threads, len, devs));
    }
  }
  Plan {
    jobs,
    finish: Finish {
      prop: "C09".into(),
      tier: tier_name(tier),
      engine: "E1 opseq".into(),
      rule: "debounce(w), throttle_time(w, leading|tailing|all), throttle with a per-item window, sample(interval(w)), buffer_with_time(w), buffer_with_count_and_time(n,w), w in {1,2} ticks (debounce and throttle_time also with a zero-length window), over a hot source: every sequence up to the length bound over {next (fresh value), complete, error, advance one tick, run the i-th ready task} (so gaps shorter than, equal to and longer than the window; both orders of a same-instant source event and timer via one deviation), then 4 more ticks; generic clauses under every run order (only source items, each at most once, source order, buffers non-empty and within the count limit, concatenation = source on completion, error forwarded), exact timed list model whenever no deviation occurred; non-trivial = something was delivered".into(),
      bounds: json!({"len_prompt": len0, "len_any_order": len, "deviations": devs, "operators": ops.len()}),
      assumptions: vec![
        "a throttle window runs from the item that opened it; the next window opens with the first item after it closed".into(),
      ],
    },
  }
}
