//! C19 — scheduled tasks run at most once, never early, and stay cancelled.
use super::{tier_name, Plan, Tier};
use crate::report::{Finish, Job};
use crate::world::{self, ticks, World};
use rxrust::prelude::*;
use rxrust::scheduler::{FutureTask, NormalReturn, OnceTask, RepeatTask, Scheduler, SubscribeReturn, TaskHandle};
use serde_json::json;
use std::future::Future;
use std::pin::Pin;
use std::sync::atomic::{AtomicBool, Ordering};
use std::sync::{Arc, Mutex};
use std::task::{Context, Poll, Waker};

#[derive(Clone, Copy, Debug, PartialEq, Eq)]
enum Kind {
  Once,
  Subscribing,
  /// repeating task with period `p`, declines at sequence number `n`
  Repeat(u64, usize),
  /// repeating task whose first run is due after `first`, then every `p`
  RepeatFirst(u64, u64, usize),
  /// one-shot over a future the harness resolves
  Fut,
}

#[derive(Clone, Copy, Debug, PartialEq, Eq)]
struct Spec {
  kind: Kind,
  /// whole ticks; `Some(0)` stands for a delay of 999 microseconds (shorter
  /// than anything the virtual clock resolves: only the timer request shows it)
  delay: Option<u64>,
}

const SUB_MS: std::time::Duration = std::time::Duration::from_micros(999);
fn delay_of(d: Option<u64>) -> Option<std::time::Duration> {
  match d {
    None => None,
    Some(0) => Some(SUB_MS),
    Some(n) => Some(ticks(n)),
  }
}

#[derive(Default)]
struct Log {
  /// (virtual time, seq) of every run of the body
  runs: Vec<(u64, usize)>,
}

#[derive(Clone, Default)]
struct Ctl {
  unsubscribed: Arc<AtomicBool>,
}
impl Subscription for Ctl {
  fn unsubscribe(self) {
    self.unsubscribed.store(true, Ordering::SeqCst);
  }
  fn is_closed(&self) -> bool {
    self.unsubscribed.load(Ordering::SeqCst)
  }
}

type Shared = Arc<Mutex<Log>>;

fn once_body(l: Shared) -> NormalReturn<()> {
  l.lock().unwrap().runs.push((world::now(), 0));
  NormalReturn::new(())
}
fn sub_body((l, c): (Shared, Ctl)) -> SubscribeReturn<Ctl> {
  l.lock().unwrap().runs.push((world::now(), 0));
  SubscribeReturn::new(c)
}
fn repeat_body(a: &mut (Shared, usize), seq: usize) -> bool {
  if seq >= a.1 {
    return false;
  }
  a.0.lock().unwrap().runs.push((world::now(), seq));
  true
}
fn fut_body(_: (), l: Shared) -> NormalReturn<()> {
  l.lock().unwrap().runs.push((world::now(), 0));
  NormalReturn::new(())
}

#[derive(Clone, Default)]
struct Script {
  ready: Arc<AtomicBool>,
  waker: Arc<Mutex<Option<Waker>>>,
  polls: Arc<Mutex<usize>>,
}
struct ScriptFut(Script);
impl Future for ScriptFut {
  type Output = ();
  fn poll(self: Pin<&mut Self>, cx: &mut Context<'_>) -> Poll<()> {
    *self.0.polls.lock().unwrap() += 1;
    if self.0.ready.load(Ordering::SeqCst) {
      Poll::Ready(())
    } else {
      *self.0.waker.lock().unwrap() = Some(cx.waker().clone());
      Poll::Pending
    }
  }
}

enum Handle {
  N(TaskHandle<NormalReturn<()>>),
  S(TaskHandle<SubscribeReturn<Ctl>>),
  Gone,
}
impl Handle {
  fn is_closed(&self) -> Option<bool> {
    match self {
      Handle::N(h) => Some(h.is_closed()),
      Handle::S(h) => Some(h.is_closed()),
      Handle::Gone => None,
    }
  }
}

struct Task {
  spec: Spec,
  log: Shared,
  ctl: Ctl,
  script: Script,
  handle: Handle,
  scheduled_at: u64,
  cancelled_runs: Option<usize>,
  closed_runs: Option<usize>,
}

fn task_job(specs: Vec<Spec>, len: usize, jumps: bool) -> Job {
  Job::new(format!("tasks {specs:?} L{len}{}", if jumps { " +jumps" } else { "" }), move |ch, obs| {
    let mut w = World::new();
    let sched = w.sched.clone();
    let mut tasks: Vec<Task> = vec![];
    for s in &specs {
      let log: Shared = Arc::new(Mutex::new(Log::default()));
      let ctl = Ctl::default();
      let script = Script::default();
      let d = delay_of(s.delay);
      let handle = match s.kind {
        Kind::Once => Handle::N(sched.schedule(OnceTask::new(once_body, log.clone()), d)),
        Kind::Subscribing => {
          Handle::S(sched.schedule(OnceTask::new(sub_body, (log.clone(), ctl.clone())), d))
        }
        Kind::Repeat(p, n) => {
          Handle::N(sched.schedule(RepeatTask::new(ticks(p), repeat_body, (log.clone(), n)), d))
        }
        Kind::RepeatFirst(first, p, n) => Handle::N(sched.schedule(
          RepeatTask::with_first_delay(ticks(first), ticks(p), repeat_body, (log.clone(), n)),
          d,
        )),
        Kind::Fut => Handle::N(sched.schedule(
          FutureTask::new(ScriptFut(script.clone()), fut_body, log.clone()),
          d,
        )),
      };
      tasks.push(Task {
        spec: *s,
        log,
        ctl,
        script,
        handle,
        scheduled_at: 0,
        cancelled_runs: None,
        closed_runs: None,
      });
    }
    let mut hist: Vec<String> = vec![];
    for _ in 0..len {
      // menu: cancel(i), resolve(i), tick, jump, run(k)
      let mut menu: Vec<(&str, usize)> = vec![];
      for (i, t) in tasks.iter().enumerate() {
        if !matches!(t.handle, Handle::Gone) {
          menu.push(("cancel", i));
        }
        if t.spec.kind == Kind::Fut && !t.script.ready.load(Ordering::SeqCst) {
          menu.push(("resolve", i));
        }
      }
      menu.push(("tick", 1));
      if jumps {
        menu.push(("tick", 3));
      }
      for k in 0..w.ready_len() {
        menu.push(("run", k));
      }
      let (act, arg) = menu[ch.choose(menu.len())];
      ch.label(|| format!("{act}({arg})"));
      hist.push(format!("{act}({arg})"));
      world::bump_step();
      match act {
        "cancel" => {
          let t = &mut tasks[arg];
          let n = t.log.lock().unwrap().runs.len();
          match std::mem::replace(&mut t.handle, Handle::Gone) {
            Handle::N(h) => h.unsubscribe(),
            Handle::S(h) => h.unsubscribe(),
            Handle::Gone => {}
          }
          t.cancelled_runs = Some(n);
          // handle teardown unsubscribes the produced subscription
          if t.spec.kind == Kind::Subscribing && n > 0 && !t.ctl.is_closed() {
            obs.fail(
              "c19:produced-subscription-left-open",
              format!("{specs:?} after [{}]: the subscription produced by task {arg} was not unsubscribed", hist.join(" ")),
            );
          }
          w.settle();
        }
        "resolve" => {
          let t = &tasks[arg];
          t.script.ready.store(true, Ordering::SeqCst);
          if let Some(wk) = t.script.waker.lock().unwrap().take() {
            wk.wake();
          }
          w.settle();
        }
        "tick" => w.advance(arg as u64),
        "run" => w.run_ready(arg),
        _ => unreachable!(),
      }
      obs.checks += 1;
      let now = world::now();
      for (i, t) in tasks.iter_mut().enumerate() {
        let runs = t.log.lock().unwrap().runs.clone();
        let delay = t.spec.delay.unwrap_or(0);
        match t.spec.kind {
          Kind::Repeat(p, n) | Kind::RepeatFirst(_, p, n) => {
            let first_due = match t.spec.kind {
              Kind::RepeatFirst(f, ..) => f,
              _ => 0,
            };
            if let Some((at, _)) = runs.first() {
              if *at < t.scheduled_at + first_due {
                obs.fail(
                  "c19:ran-early",
                  format!("{specs:?} after [{}]: task {i} first ran at t={at}, its first run is due after {first_due}", hist.join(" ")),
                );
              }
            }
            for (k, (at, seq)) in runs.iter().enumerate() {
              if *seq != k {
                obs.fail(
                  "c19:repeat-sequence",
                  format!("{specs:?} after [{}]: task {i} ran with sequence numbers {:?}", hist.join(" "), runs.iter().map(|r| r.1).collect::<Vec<_>>()),
                );
              }
              if *at < t.scheduled_at + delay {
                obs.fail(
                  "c19:ran-early",
                  format!("{specs:?} after [{}]: task {i} ticked at t={at}, delay {delay}", hist.join(" ")),
                );
              }
              if k > 0 && *at < runs[k - 1].0 + p {
                obs.fail(
                  "c19:repeat-period",
                  format!("{specs:?} after [{}]: task {i} ticked at {:?}, period {p}", hist.join(" "), runs.iter().map(|r| r.0).collect::<Vec<_>>()),
                );
              }
            }
            // neither declined nor cancelled, and nothing left that could ever run it
            // again (no ready task, no live timer): the task has silently stopped
            if t.cancelled_runs.is_none() && runs.len() < n && w.dead_quiet() {
              obs.fail(
                "c19:repeat-stalled",
                format!(
                  "{specs:?} after [{}]: repeating task {i} ran {} of its {n} rounds, was not cancelled, and nothing is scheduled any more",
                  hist.join(" "),
                  runs.len()
                ),
              );
            }
            if runs.len() > n {
              obs.fail(
                "c19:repeat-after-decline",
                format!("{specs:?} after [{}]: task {i} ran {} times, declines at {n}", hist.join(" "), runs.len()),
              );
            }
          }
          _ => {
            if runs.len() > 1 {
              obs.fail(
                "c19:ran-twice",
                format!("{specs:?} after [{}]: one-shot task {i} ran {} times", hist.join(" "), runs.len()),
              );
            }
            if let Some((at, _)) = runs.first() {
              if *at < t.scheduled_at + delay {
                obs.fail(
                  "c19:ran-early",
                  format!("{specs:?} after [{}]: task {i} ran at t={at}, delay {delay}", hist.join(" ")),
                );
              }
              if t.spec.kind == Kind::Fut && !t.script.ready.load(Ordering::SeqCst) {
                obs.fail(
                  "c19:ran-before-future",
                  format!("{specs:?} after [{}]: task {i} ran before its future resolved", hist.join(" ")),
                );
              }
            }
          }
        }
        // a configured delay is really waited for: the timer was asked for
        // exactly that duration before the body ran
        if let (Some(d), false) = (delay_of(t.spec.delay), runs.is_empty()) {
          if !world::timer_log().iter().any(|r| r.dur == d) {
            obs.fail(
              "c19:delay-not-awaited",
              format!("{specs:?} after [{}]: task {i} ran although no timer of its delay {d:?} was ever requested", hist.join(" ")),
            );
          }
        }
        if let Some(n) = t.cancelled_runs {
          if runs.len() > n {
            obs.fail(
              "c19:ran-after-cancel",
              format!("{specs:?} after [{}]: task {i} ran after unsubscribe() had returned", hist.join(" ")),
            );
          }
        }
        if let Some(n) = t.closed_runs {
          if runs.len() > n {
            obs.fail(
              "c19:ran-after-closed",
              format!("{specs:?} after [{}]: task {i} ran after its handle reported closed", hist.join(" ")),
            );
          }
        }
        // "a handle reports closed only when its task can no longer act": the
        // subscription a subscribing task has made acts on its behalf
        if t.spec.kind == Kind::Subscribing
          && !runs.is_empty()
          && !t.ctl.is_closed()
          && t.handle.is_closed() == Some(true)
        {
          obs.fail(
            "c19:closed-while-produced-subscription-live",
            format!(
              "{specs:?} after [{}]: task {i} ran and the subscription it made is still open, yet its handle reports closed",
              hist.join(" ")
            ),
          );
        }
        if t.closed_runs.is_none() && t.handle.is_closed() == Some(true) {
          t.closed_runs = Some(runs.len());
        }
        let _ = now;
      }
      // every wait a task asks the timer seam for is one of the durations it was
      // configured with, exactly (a period silently clamped or rounded shows here
      // even when it is shorter than a virtual tick)
      if obs.viol.is_empty() {
        let mut allowed: Vec<std::time::Duration> = vec![];
        for t in tasks.iter() {
          if let Some(d) = delay_of(t.spec.delay) {
            allowed.push(d);
          }
          match t.spec.kind {
            Kind::Repeat(p, _) => allowed.push(ticks(p)),
            Kind::RepeatFirst(f, p, _) => {
              allowed.push(ticks(f));
              allowed.push(ticks(p));
            }
            _ => {}
          }
        }
        if let Some(bad) = world::timer_log().iter().find(|r| !allowed.contains(&r.dur)) {
          obs.fail(
            "c19:unexpected-timer-duration",
            format!(
              "{specs:?} after [{}]: a timer of {:?} was requested; the configured delays and periods are {allowed:?}",
              hist.join(" "),
              bad.dur
            ),
          );
        }
      }
      if !obs.viol.is_empty() {
        break;
      }
    }
    let total: usize = tasks.iter().map(|t| t.log.lock().unwrap().runs.len()).sum();
    obs.delivered = total as u64;
    for t in &tasks {
      obs.note_outcome(&t.log.lock().unwrap().runs);
    }
    obs.log(|| {
      tasks
        .iter()
        .enumerate()
        .map(|(i, t)| format!("task{i} runs {:?}", t.log.lock().unwrap().runs))
        .collect::<Vec<_>>()
        .join("; ")
    });
  })
}

pub fn plan(tier: Tier) -> Plan {
  let kinds = [
    Kind::Once,
    Kind::Subscribing,
    Kind::Repeat(1, 2),
    Kind::Repeat(2, 3),
    Kind::RepeatFirst(2, 1, 3),
    Kind::RepeatFirst(1, 2, 3),
    Kind::Fut,
  ];
  let delays = [None, Some(0), Some(1), Some(2)];
  let mut specs = vec![];
  for k in kinds {
    for d in delays {
      specs.push(Spec { kind: k, delay: d });
    }
  }
  let mut jobs = vec![];
  // a zero-length period: every round inside one poll, more rounds than any
  // per-poll budget an implementation might have
  jobs.push(task_job(vec![Spec { kind: Kind::Repeat(0, 12), delay: None }], 5, false));
  jobs.push(task_job(vec![Spec { kind: Kind::RepeatFirst(1, 0, 12), delay: None }], 5, false));
  let (l1, l2, l3, jumps) = match tier {
    Tier::Quick => (9, 7, 0, false),
    Tier::Thorough => (12, 10, 7, true),
  };
  for a in &specs {
    jobs.push(task_job(vec![*a], l1, jumps));
    if jumps {
      jobs.push(task_job(vec![*a], l1 - 2, false));
    }
    for b in &specs {
      jobs.push(task_job(vec![*a, *b], l2, false));
      if l3 > 0 {
        for c in [Spec { kind: Kind::Once, delay: Some(1) }, Spec { kind: Kind::Repeat(1, 2), delay: None }] {
          jobs.push(task_job(vec![*a, *b, c], l3, false));
        }
      }
    }
  }
  Plan {
    jobs,
    finish: Finish {
      prop: "C19".into(),
      tier: tier_name(tier),
      engine: "E1 opseq".into(),
      rule: "sets of 1-3 harness tasks (OnceTask/NormalReturn, OnceTask/SubscribeReturn over a controllable subscription, RepeatTask declining after n ticks, FutureTask over a harness-resolved future; delays none/1/2 ticks) on the real LocalSpawner behind the gate: every action sequence up to the length bound over {cancel(i) (so: before the first poll, while waiting on the timer, between ticks, after completion), resolve future, tick, jump 3 ticks, run ready task k in any order}; oracle after every action: one-shot bodies at most once and not before delay (nor before their future), repeating bodies with consecutive sequence numbers at least one period apart, never after declining, and never silently stalled (also with a zero-length period and 12 rounds), nothing runs after unsubscribe() returned or after is_closed() answered true, every timer request is exactly one of the configured delays / periods, produced subscription unsubscribed by handle teardown, and the handle of a subscribing task not closed while the subscription it made is open; non-trivial = a body ran".into(),
      bounds: json!({"task_configs": specs.len(), "len_one_task": l1, "len_two_tasks": l2, "len_three_tasks": l3, "clock_jumps": jumps}),
      assumptions: vec!["task bodies are atomic (single-threaded executor); overlapping bodies are E2's business".into()],
    },
  }
}
