//! C18 — local and thread-safe variants are observationally equivalent.
use super::{tier_name, Plan, Tier};
use crate::ast::*;
use crate::catalogue::*;
use crate::drive::*;
use crate::probe::Probe;
use crate::report::{Finish, Job};
use crate::val::*;
use serde_json::json;

#[derive(Clone, Debug)]
enum A {
  In(usize, Note),
  Tick,
  /// the (first) subscriber unsubscribes; at most once per history
  Unsub,
}

/// run the whole action list in one form; snapshot = (probe, probe2) traces
/// after every action
/// user-visible side effects: (source closure calls, iterator pulls, tap calls, finalizer runs, inner subscriptions)
type Fx = (usize, usize, usize, usize, usize);

fn fx(r: &Run) -> Fx {
  let c = &r.cx.ctr;
  (
    Counters::get(&c.src_calls),
    Counters::get(&c.pulls),
    Counters::get(&c.taps),
    Counters::get(&c.finals),
    Counters::get(&c.inner_subs),
  )
}

fn run_form(pipe: &Pipe, form: Form, acts: &[A], second_sub: bool) -> Vec<(Vec<Note>, Vec<Note>, Fx)> {
  let n_in = pipe.n_inputs().max(1);
  let timed = pipe.uses_time();
  let mut r = Run::prepare(n_in, form);
  r.subscribe(pipe);
  let p2 = Probe::new();
  let mut _s2 = Sub::None;
  if second_sub {
    _s2 = r.subscribe_probe(pipe, p2.clone());
  }
  r.drain();
  let mut snaps = vec![(r.probe.notes(), p2.notes(), fx(&r))];
  for a in acts {
    match a {
      A::In(i, n) => {
        r.emit(*i, n);
        r.drain();
      }
      A::Tick => {
        r.tick();
      }
      A::Unsub => {
        r.sub.unsubscribe();
        r.drain();
      }
    }
    snaps.push((r.probe.notes(), p2.notes(), fx(&r)));
  }
  if timed {
    for _ in 0..3 {
      r.tick();
      snaps.push((r.probe.notes(), p2.notes(), fx(&r)));
    }
  }
  snaps
}

fn diff_job(pipe: Pipe, len: usize, second_sub: bool) -> Job {
  let n_in = pipe.n_inputs().max(1);
  let timed = pipe.uses_time();
  let name = format!("L{len}{} {}", if second_sub { " 2subs" } else { "" }, pipe.show());
  Job::new(name, move |ch, obs| {
    let n_act = n_in * ALPHA4 + timed as usize;
    let mut acts = vec![];
    let mut unsubbed = false;
    for _ in 0..len {
      let k = ch.choose(n_act + !unsubbed as usize);
      let a = if k == n_act {
        unsubbed = true;
        A::Unsub
      } else if k == n_in * ALPHA4 {
        A::Tick
      } else {
        A::In(k / ALPHA4, alpha4(k % ALPHA4))
      };
      ch.label(|| format!("{a:?}"));
      acts.push(a);
    }
    let l = run_form(&pipe, Form::Local, &acts, second_sub);
    let t = run_form(&pipe, Form::Threads, &acts, second_sub);
    obs.checks += l.len() as u64;
    for (i, (a, b)) in l.iter().zip(t.iter()).enumerate() {
      if a != b {
        obs.fail(
          format!("c18:diverge:{}", super::c01::sig(&pipe)),
          format!(
            "{} after {:?}: local [{}]{} side effects {:?} but thread-safe form [{}]{} side effects {:?} (source closure calls, iterator pulls, tap calls, finalizer runs, inner subscriptions)",
            pipe.show(),
            &acts[..i.min(acts.len())],
            fmt_notes(&a.0),
            if second_sub { format!(" / [{}]", fmt_notes(&a.1)) } else { String::new() },
            a.2,
            fmt_notes(&b.0),
            if second_sub { format!(" / [{}]", fmt_notes(&b.1)) } else { String::new() },
            b.2,
          ),
        );
        break;
      }
    }
    let last = l.last().unwrap();
    obs.delivered = (last.0.len() + last.1.len()) as u64;
    obs.note_outcome(last);
    obs.log(|| format!("local [{}] threads [{}]", fmt_notes(&last.0), fmt_notes(&t.last().unwrap().0)));
  })
}

fn cold_diff_job(pipe: Pipe) -> Job {
  Job::new(format!("cold {}", pipe.show()), move |_ch, obs| {
    let acts = vec![A::Tick, A::Tick];
    let l = run_form(&pipe, Form::Local, &acts, false);
    let t = run_form(&pipe, Form::Threads, &acts, false);
    obs.checks += 1;
    if l != t {
      obs.fail(
        format!("c18:diverge:{}", super::c01::sig(&pipe)),
        format!(
          "{}: local [{}] side effects {:?} but thread-safe form [{}] side effects {:?} (source closure calls, iterator pulls, tap calls, finalizer runs, inner subscriptions)",
          pipe.show(),
          fmt_notes(&l.last().unwrap().0),
          l.last().unwrap().2,
          fmt_notes(&t.last().unwrap().0),
          t.last().unwrap().2
        ),
      );
    }
    obs.delivered = l.last().unwrap().0.len() as u64;
    obs.note_outcome(l.last().unwrap());
  })
}

/// BehaviorSubject over Subject vs over SubjectThreads, same operation sequence
macro_rules! beh_run {
  ($fname:ident, $subj:ty) => {
    fn $fname(ops: &[usize]) -> Vec<Vec<Note>> {
      use crate::world;
      use rxrust::prelude::*;
      let _w = world::World::new();
      type B = BehaviorSubject<V, $subj>;
      let mut h: B = B::new(V::I(9));
      let mut probes: Vec<Probe> = vec![];
      let mut subs = vec![];
      for op in ops {
        match op {
          0 => {
            let p = Probe::new();
            probes.push(p.clone());
            subs.push(Some(h.clone().actual_subscribe(p)));
          }
          1 => {
            // a subscriber that peeks from inside its callback and records it
            let hb = h.clone();
            let log = Probe::new();
            let l2 = log.clone();
            let p = Probe::with_hook(move |_| l2.push_note(Note::N(hb.peek())));
            probes.push(p.clone());
            probes.push(log);
            subs.push(Some(h.clone().actual_subscribe(p)));
          }
          2 => h.next(V::I(0)),
          3 => h.next_by(|v| V::I(v.num() + 1)),
          4 => h.clone().complete(),
          5 => h.clone().error(E::E0),
          _ => {
            if let Some(u) = subs.iter_mut().find(|u| u.is_some()) {
              u.take().unwrap().unsubscribe();
            }
          }
        }
      }
      let mut out: Vec<Vec<Note>> = probes.iter().map(|p| p.notes()).collect();
      out.push(vec![Note::N(h.peek())]);
      out
    }
  };
}
beh_run!(beh_local, rxrust::prelude::Subject<'static, V, E>);
beh_run!(beh_threads, rxrust::prelude::SubjectThreads<V, E>);

fn behavior_diff_job(len: usize) -> Job {
  Job::new(format!("BehaviorSubject local vs thread-safe L{len}"), move |ch, obs| {
    let mut ops = vec![];
    let mut n_subs = 0;
    for _ in 0..len {
      let k = ch.choose(7);
      if k <= 1 {
        n_subs += 1;
        if n_subs > 3 {
          continue;
        }
      }
      ch.label(|| {
        ["subscribe", "subscribe-peeking", "next(0)", "next_by(+1)", "complete", "error", "unsubscribe-first"][k]
          .to_string()
      });
      ops.push(k);
    }
    let l = beh_local(&ops);
    let t = beh_threads(&ops);
    obs.checks += 1;
    if l != t {
      obs.fail(
        "c18:diverge:behavior_subject",
        format!("ops {ops:?}: local {l:?} but thread-safe form {t:?}"),
      );
    }
    obs.delivered = l.iter().map(|x| x.len() as u64).sum();
    obs.note_outcome(&l);
  })
  .panics_violate()
  .sig("behavior_subject (one form does not return)")
}

pub fn plan(tier: Tier) -> Plan {
  let (depth, len, len2) = match tier {
    Tier::Quick => (2, 4, 4),
    Tier::Thorough => (3, 4, 5),
  };
  let mut jobs = vec![];
  let mut n_pipes = 0u64;
  for p in chains(&Pipe::hot(0), &super::c01::all_ops(true), 1) {
    n_pipes += 1;
    jobs.push(diff_job(p, len + 1, false));
  }
  for p in chains(&Pipe::S(Src::Raw(0)), &super::c01::all_ops(true), 1) {
    n_pipes += 1;
    jobs.push(diff_job(p, len, false));
  }
  for p in chains(&Pipe::hot(0), &super::c01::all_ops(false), depth) {
    if p.depth() < 2 {
      continue;
    }
    n_pipes += 1;
    jobs.push(diff_job(p, len, false));
  }
  for p in super::c01::two_input_pipes(&super::c01::stateful_ops()) {
    n_pipes += 1;
    let l = if p.n_inputs() >= 3 { len2.min(4) } else { len2 };
    jobs.push(diff_job(p, l, false));
  }
  for p in super::c01::flat_pipes() {
    n_pipes += 1;
    jobs.push(diff_job(p, len2, false));
  }
  for op in super::c01::stateful_ops() {
    n_pipes += 2;
    jobs.push(diff_job(Pipe::hot(0).o1(op.clone()).o1(Op1::Share), len, true));
    jobs.push(diff_job(Pipe::hot(0).o1(Op1::Share).o1(op), len, true));
  }
  for s in cold_sources() {
    for p in chains(&Pipe::S(s), &super::c01::all_ops(false), 1) {
      n_pipes += 1;
      jobs.push(cold_diff_job(p));
    }
  }
  for s in [Src::Interval(1), Src::Timer(3, 1), Src::IntervalAt(1, 1), Src::TimerAt(3, 2)] {
    for p in chains(&Pipe::S(s), &super::c01::all_ops(false), 1) {
      n_pipes += 1;
      jobs.push(cold_diff_job(p));
    }
  }
  // a second input that is subscribed for a subscriber which has already
  // finished (the cold first input satisfied take(1)): whether it is subscribed at
  // all shows only in its side effects
  for op2 in Op2::ALL {
    for x in [
      Pipe::S(Src::OfFn(1)),
      Pipe::S(Src::Defer(Box::new(Src::Iter(vec![0, 1])))),
      Pipe::S(Src::IterCount(3)).o1(Op1::Tap),
      Pipe::S(Src::IntoIter(vec![0, 1])).o1(Op1::Finalize),
    ] {
      n_pipes += 1;
      jobs.push(cold_diff_job(Pipe::S(Src::Of(7)).o2(op2, x).o1(Op1::Take(1))));
    }
  }
  for first in 0..7 {
    jobs.push(behavior_diff_job(if tier == Tier::Quick { 6 } else { 7 }).root(vec![first]));
  }
  Plan {
    jobs,
    finish: Finish {
      prop: "C18".into(),
      tier: tier_name(tier),
      engine: "E1 opseq".into(),
      rule: "every pipeline of the C01 generator is instantiated twice from the same AST — all-local (Subject, Subscriber, BoxOp, merge, ...) and all-thread-safe (SubjectThreads, SubscriberThreads, BoxOpThreads, merge_threads, ...) — and both are driven single-threaded through every action history up to the length bound over {next(0), next(1), complete, error per input, tick, unsubscribe (once)}; the probe traces (and those of a second subscriber for share) and the user-visible side-effect counters (source closure calls, iterator pulls, tap calls, finalizer runs, inner subscriptions) must be identical after every action (pure differential oracle); likewise BehaviorSubject over Subject vs over SubjectThreads on every operation sequence incl. a subscriber that peeks from inside its callback (a form that does not return is a divergence); non-trivial = something was delivered".into(),
      bounds: json!({"chain_depth": depth, "history_len_chains": len, "history_len_two_input": len2, "pipelines": n_pipes}),
      assumptions: vec!["FIFO-prompt executor in both instantiations".into()],
    },
  }
}
