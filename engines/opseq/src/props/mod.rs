pub mod c01;
pub mod c02;
pub mod c03;
pub mod c04;
pub mod c05;
pub mod c06;
pub mod c07;
pub mod c08;
pub mod c09;
pub mod c11;
pub mod c12;
pub mod c13;
pub mod c14;
pub mod c15;
pub mod c16;
pub mod c17;
pub mod c18;
pub mod c19;
pub mod c20;

use crate::report::{Finish, Job};

#[derive(Clone, Copy, PartialEq, Eq, Debug)]
pub enum Tier {
  Quick,
  Thorough,
}

pub struct Plan {
  pub jobs: Vec<Job>,
  pub finish: Finish,
}

pub fn plan(prop: &str, tier: Tier) -> Option<Plan> {
  match prop {
    "C01" => Some(c01::plan(tier)),
    "C02" => Some(c02::plan(tier)),
    "C03" => Some(c03::plan(tier)),
    "C04" => Some(c04::plan(tier)),
    "C05" => Some(c05::plan(tier)),
    "C06" => Some(c06::plan(tier)),
    "C07" => Some(c07::plan(tier)),
    "C08" => Some(c08::plan(tier)),
    "C09" => Some(c09::plan(tier)),
    "C11" => Some(c11::plan(tier)),
    "C12" => Some(c12::plan(tier)),
    "C13" => Some(c13::plan(tier)),
    "C14" => Some(c14::plan(tier)),
    "C15" => Some(c15::plan(tier)),
    "C16" => Some(c16::plan(tier)),
    "C17" => Some(c17::plan(tier)),
    "C18" => Some(c18::plan(tier)),
    "C19" => Some(c19::plan(tier)),
    "C20" => Some(c20::plan(tier)),
    _ => None,
  }
}

pub fn tier_name(t: Tier) -> String {
  match t {
    Tier::Quick => "quick".into(),
    Tier::Thorough => "thorough".into(),
  }
}
