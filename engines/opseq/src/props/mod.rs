pub mod c01;
pub mod c03;
pub mod c04;

use crate::report::{Finish, Job};

#[derive(Clone, Copy, PartialEq, Eq, Debug)]
pub enum Tier {
  Quick,
  Thorough,
}

pub struct Plan {
  pub jobs: Vec<Job>,
  pub finish: Finish,
}

pub fn plan(prop: &str, tier: Tier) -> Option<Plan> {
  match prop {
    "C01" => Some(c01::plan(tier)),
    "C03" => Some(c03::plan(tier)),
    "C04" => Some(c04::plan(tier)),
    _ => None,
  }
}

pub fn tier_name(t: Tier) -> String {
  match t {
    Tier::Quick => "quick".into(),
    Tier::Thorough => "thorough".into(),
  }
}
