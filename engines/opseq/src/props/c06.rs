//! C06 — subjects deliver each item once, in order, to exactly the current
//! subscribers (sequential part; the concurrent part lives in engine E2).
use super::{tier_name, Plan, Tier};
use crate::probe::Probe;
use crate::report::{Finish, Job};
use crate::val::*;
use crate::world;
use rxrust::prelude::*;
use serde_json::json;
use std::cell::RefCell;
use std::rc::Rc;

pub struct SubHandle {
  pub unsub: Box<dyn FnOnce()>,
  pub closed: Box<dyn Fn() -> bool>,
}

/// uniform face of the five subject types
pub trait SubjApi {
  fn dup(&self) -> Box<dyn SubjApi>;
  fn sub(&self, p: Probe) -> SubHandle;
  fn next(&mut self, v: V);
  fn error(self: Box<Self>, e: E);
  fn complete(self: Box<Self>);
  fn retain(&mut self);
  fn unsub(self: Box<Self>);
  fn len(&self) -> usize;
  fn is_empty(&self) -> bool;
  fn is_finished(&self) -> bool;
  fn is_closed(&self) -> bool;
}

// probes for the mutable-reference variants
pub struct PItem(pub Probe);
pub struct PErr(pub Probe);
pub struct PBoth(pub Probe);
impl<'r> Observer<&'r mut V, E> for PItem {
  fn next(&mut self, v: &'r mut V) {
    self.0.next(v.clone())
  }
  fn error(self, e: E) {
    self.0.error(e)
  }
  fn complete(self) {
    self.0.complete()
  }
  fn is_finished(&self) -> bool {
    false
  }
}
impl<'r> Observer<V, &'r mut E> for PErr {
  fn next(&mut self, v: V) {
    self.0.next(v)
  }
  fn error(self, e: &'r mut E) {
    self.0.error(*e)
  }
  fn complete(self) {
    self.0.complete()
  }
  fn is_finished(&self) -> bool {
    false
  }
}
impl<'r, 's> Observer<&'r mut V, &'s mut E> for PBoth {
  fn next(&mut self, v: &'r mut V) {
    self.0.next(v.clone())
  }
  fn error(self, e: &'s mut E) {
    self.0.error(*e)
  }
  fn complete(self) {
    self.0.complete()
  }
  fn is_finished(&self) -> bool {
    false
  }
}

macro_rules! subj_api {
  ($ty:ty, $wrap:expr, |$s:ident, $v:ident| $next:expr, |$s2:ident, $e:ident| $err:expr) => {
    impl SubjApi for $ty {
      fn dup(&self) -> Box<dyn SubjApi> {
        Box::new(self.clone())
      }
      fn sub(&self, p: Probe) -> SubHandle {
        let u = self.clone().actual_subscribe($wrap(p));
        let u2 = u.clone();
        SubHandle {
          unsub: Box::new(move || u.unsubscribe()),
          closed: Box::new(move || u2.is_closed()),
        }
      }
      fn next(&mut self, $v: V) {
        let $s = self;
        $next
      }
      fn error(self: Box<Self>, $e: E) {
        let $s2 = *self;
        $err
      }
      fn complete(self: Box<Self>) {
        Observer::complete(*self)
      }
      fn retain(&mut self) {
        <$ty>::retain(self)
      }
      fn unsub(self: Box<Self>) {
        Subscription::unsubscribe(*self)
      }
      fn len(&self) -> usize {
        SubjectSize::len(self)
      }
      fn is_empty(&self) -> bool {
        SubjectSize::is_empty(self)
      }
      fn is_finished(&self) -> bool {
        Observer::is_finished(self)
      }
      fn is_closed(&self) -> bool {
        Subscription::is_closed(self)
      }
    }
  };
}

fn id<T>(t: T) -> T {
  t
}

subj_api!(Subject<'static, V, E>, id, |s, v| Observer::next(s, v), |s, e| Observer::error(s, e));
subj_api!(SubjectThreads<V, E>, id, |s, v| Observer::next(s, v), |s, e| Observer::error(s, e));
subj_api!(
  MutRefItemSubject<'static, V, E>,
  PItem,
  |s, v| {
    let mut x = v;
    Observer::next(s, &mut x)
  },
  |s, e| Observer::error(s, e)
);
subj_api!(
  MutRefErrSubject<'static, V, E>,
  PErr,
  |s, v| Observer::next(s, v),
  |s, e| {
    let mut x = e;
    Observer::error(s, &mut x)
  }
);
subj_api!(
  MutRefItemErrSubject<'static, V, E>,
  PBoth,
  |s, v| {
    let mut x = v;
    Observer::next(s, &mut x)
  },
  |s, e| {
    let mut x = e;
    Observer::error(s, &mut x)
  }
);

#[derive(Clone, Copy, PartialEq, Eq, Debug)]
pub enum Kind {
  Subject,
  SubjectThreads,
  MutRefItem,
  MutRefErr,
  MutRefItemErr,
}

fn make(k: Kind) -> Box<dyn SubjApi> {
  match k {
    Kind::Subject => Box::new(Subject::<'static, V, E>::default()),
    Kind::SubjectThreads => Box::new(SubjectThreads::<V, E>::default()),
    Kind::MutRefItem => Box::new(MutRefItemSubject::<'static, V, E>::default()),
    Kind::MutRefErr => Box::new(MutRefErrSubject::<'static, V, E>::default()),
    Kind::MutRefItemErr => Box::new(MutRefItemErrSubject::<'static, V, E>::default()),
  }
}

// ---------------------------------------------------------------- model

#[derive(Clone, Copy, PartialEq, Eq, Debug)]
enum St {
  Open,
  Terminated,
  Unsubscribed,
}

struct MSub {
  /// still attached (not unsubscribed, subject was open when it joined)
  live: bool,
  /// a hooked subscriber subscribes one more probe from inside its first callback
  hook_armed: bool,
  expect: Vec<Note>,
}

const MAX_SUBS: usize = 3;

fn subject_job(kind: Kind, len: usize) -> Job {
  Job::new(format!("{kind:?} ops L{len}"), move |ch, obs| {
    let _w = world::World::new();
    let mut h0 = make(kind);
    let mut h1 = h0.dup();
    let mut probes: Vec<Probe> = vec![];
    let handles: Rc<RefCell<Vec<Option<SubHandle>>>> = Rc::new(RefCell::new(vec![]));
    // probes created from inside callbacks, in creation order
    let late_probes: Rc<RefCell<Vec<Probe>>> = Rc::new(RefCell::new(vec![]));
    let mut model: Vec<MSub> = vec![];
    let mut st = St::Open;
    let mut hist: Vec<String> = vec![];
    let mut late_used = 0usize;
    for _ in 0..len {
      // dynamic menu
      let mut menu: Vec<(&str, usize)> = vec![];
      if model.len() < MAX_SUBS {
        menu.push(("subscribe", 0));
        menu.push(("subscribe-hooked", 0));
      }
      for (k, _) in model.iter().enumerate() {
        if handles.borrow()[k].is_some() {
          menu.push(("unsubscribe", k));
        }
      }
      menu.push(("next@h0", 0));
      menu.push(("next@h1", 1));
      menu.push(("complete@h0", 0));
      menu.push(("complete@h1", 1));
      menu.push(("error@h0", 0));
      menu.push(("error@h1", 1));
      menu.push(("retain", 0));
      menu.push(("unsubscribe-subject", 0));
      let (act, arg) = menu[ch.choose(menu.len())];
      ch.label(|| format!("{act}({arg})"));
      hist.push(format!("{act}({arg})"));
      world::bump_step();
      match act {
        "subscribe" | "subscribe-hooked" => {
          let hooked = act == "subscribe-hooked";
          let p = if hooked {
            let subj = h0.dup();
            let hs = handles.clone();
            let lp = late_probes.clone();
            let mut armed = true;
            Probe::with_hook(move |_| {
              if armed {
                armed = false;
                let np = Probe::new();
                lp.borrow_mut().push(np.clone());
                let h = subj.sub(np);
                hs.borrow_mut().push(Some(h));
              }
            })
          } else {
            Probe::new()
          };
          probes.push(p.clone());
          let h = h0.sub(p);
          handles.borrow_mut().push(Some(h));
          model.push(MSub { live: st == St::Open, hook_armed: hooked, expect: vec![] });
        }
        "unsubscribe" => {
          let h = handles.borrow_mut()[arg].take().unwrap();
          (h.unsub)();
          model[arg].live = false;
        }
        "next@h0" | "next@h1" => {
          let v = V::I(arg as i64);
          if arg == 0 {
            h0.next(v.clone());
          } else {
            h1.next(v.clone());
          }
          if st == St::Open {
            let n = model.len();
            for k in 0..n {
              if model[k].live {
                model[k].expect.push(Note::N(v.clone()));
                if model[k].hook_armed {
                  model[k].hook_armed = false;
                  // joined during this emission: misses the in-flight item
                  model.push(MSub { live: true, hook_armed: false, expect: vec![] });
                  let lp = late_probes.borrow();
                  if late_used < lp.len() {
                    probes.push(lp[late_used].clone());
                  }
                  late_used += 1;
                }
              }
            }
          }
        }
        "complete@h0" | "complete@h1" | "error@h0" | "error@h1" => {
          let is_err = act.starts_with("error");
          let note = if is_err { Note::Err(E::E0) } else { Note::C };
          // terminals consume the handle: use a fresh clone of the chosen one
          let h = if arg == 0 { h0.dup() } else { h1.dup() };
          if is_err {
            h.error(E::E0);
          } else {
            h.complete();
          }
          if st == St::Open {
            st = St::Terminated;
            for m in model.iter_mut() {
              if m.live {
                m.expect.push(note.clone());
                m.live = false;
              }
            }
          }
        }
        "retain" => h0.retain(),
        "unsubscribe-subject" => {
          h1.dup().unsub();
          if st == St::Open {
            st = St::Unsubscribed;
            for m in model.iter_mut() {
              m.live = false;
            }
          }
        }
        _ => unreachable!(),
      }
      // hooked subscribers that were never triggered keep their armed state;
      // compare every probe with its expectation
      obs.checks += 1;
      if probes.len() != model.len() {
        obs.fail(
          format!("c06:{kind:?}:callback-subscription"),
          format!("after [{}]: {} probes exist, model has {}", hist.join(" "), probes.len(), model.len()),
        );
        break;
      }
      for (k, p) in probes.iter().enumerate() {
        let got = p.notes();
        if got != model[k].expect {
          obs.fail(
            format!("c06:{kind:?}:delivery"),
            format!(
              "after [{}]: subscriber {k} expected [{}] got [{}]",
              hist.join(" "),
              fmt_notes(&model[k].expect),
              fmt_notes(&got)
            ),
          );
        }
      }
      // API answers that the statement fixes
      let fin = st != St::Open;
      for (name, h) in [("h0", &h0), ("h1", &h1)] {
        if h.is_finished() != fin || h.is_closed() != fin {
          obs.fail(
            format!("c06:{kind:?}:api-finished"),
            format!(
              "after [{}]: {name}.is_finished()={} is_closed()={} expected {}",
              hist.join(" "),
              h.is_finished(),
              h.is_closed(),
              fin
            ),
          );
        }
        if fin && (!h.is_empty() || h.len() != 0) {
          obs.fail(
            format!("c06:{kind:?}:api-empty"),
            format!("after [{}]: {name}.is_empty()={} len()={}", hist.join(" "), h.is_empty(), h.len()),
          );
        }
        // while open: not "empty" while somebody is attached, and every attached
        // subscriber is counted (closed ones that were never pruned may be as well)
        let live = model.iter().filter(|m| m.live).count();
        if !fin && live > 0 && (h.is_empty() || h.len() < live) {
          obs.fail(
            format!("c06:{kind:?}:api-empty"),
            format!("after [{}]: {live} subscribers are attached but {name}.is_empty()={} len()={}", hist.join(" "), h.is_empty(), h.len()),
          );
        }
        if !fin && model.is_empty() && (!h.is_empty() || h.len() != 0) {
          obs.fail(
            format!("c06:{kind:?}:api-empty"),
            format!("after [{}]: never subscribed but {name}.len()={}", hist.join(" "), h.len()),
          );
        }
      }
      // subscription handles: unsubscribed => closed; terminal delivered => closed
      for (k, h) in handles.borrow().iter().enumerate() {
        if let Some(h) = h {
          let term = k < model.len() && model[k].expect.last().map_or(false, |n| n.is_terminal());
          if term && !(h.closed)() {
            obs.fail(
              format!("c06:{kind:?}:handle-open-after-terminal"),
              format!("after [{}]: subscription {k} not closed after its terminal", hist.join(" ")),
            );
          }
        }
      }
      if !obs.viol.is_empty() {
        break;
      }
    }
    let mut d = 0;
    for p in &probes {
      d += p.len();
      obs.note_outcome(&p.notes());
    }
    obs.delivered = d as u64;
    obs.log(|| {
      probes
        .iter()
        .enumerate()
        .map(|(k, p)| format!("sub{k}: [{}]", fmt_notes(&p.notes())))
        .collect::<Vec<_>>()
        .join("; ")
    });
  })
}

pub fn plan(tier: Tier) -> Plan {
  let kinds = [
    Kind::Subject,
    Kind::SubjectThreads,
    Kind::MutRefItem,
    Kind::MutRefErr,
    Kind::MutRefItemErr,
  ];
  let mut jobs = vec![];
  let (l_main, l_ref) = match tier {
    Tier::Quick => (6, 5),
    Tier::Thorough => (7, 6),
  };
  for k in kinds {
    let l = if matches!(k, Kind::Subject | Kind::SubjectThreads) { l_main } else { l_ref };
    // the first menu always has 10 entries: split the tree over the workers
    for first in 0..10 {
      jobs.push(subject_job(k, l).root(vec![first]));
    }
  }
  // split the big jobs by their first choice so that all cores are used
  Plan {
    jobs,
    finish: Finish {
      prop: "C06".into(),
      tier: tier_name(tier),
      engine: "E1 opseq".into(),
      rule: "every operation sequence up to the length bound over {subscribe, subscribe-with-a-callback-that-subscribes, unsubscribe(k), next via handle 0/1, complete/error via clone 0/1, retain, unsubscribe-subject} with at most 3 (+ callback-made) subscribers, on Subject, SubjectThreads, MutRefItemSubject, MutRefErrSubject, MutRefItemErrSubject; after every operation every probe trace must equal the list model (live list + joined-during-emission rule) and is_finished/is_closed/is_empty/len must answer as stated; non-trivial = at least one notification reached a probe".into(),
      bounds: json!({"ops_len_subject": l_main, "ops_len_mut_ref_variants": l_ref, "subscribers": MAX_SUBS}),
      assumptions: vec!["len() while closed subscribers are merely not yet retained is only bounded from below (every attached subscriber is counted)".into()],
    },
  }
}
