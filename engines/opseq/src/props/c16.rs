//! C16 — ending a stream early retires the producers that feed it.
use super::{tier_name, Plan, Tier};
use crate::ast::*;
use crate::catalogue::*;
use crate::drive::*;
use crate::report::{Finish, Job};
use crate::val::*;
use crate::world;
use serde_json::json;

const N_ITEMS: usize = 200;

fn producers() -> Vec<Src> {
  vec![
    Src::Interval(1),
    Src::Interval(2),
    Src::IntervalAt(1, 1),
    Src::IterCount(N_ITEMS),
    Src::CreatePolling(N_ITEMS),
    Src::StreamCount(N_ITEMS),
    Src::StreamResultCount(N_ITEMS),
    Src::Timer(1, 2),
  ]
}

fn period(s: &Src) -> u64 {
  match s {
    Src::Interval(p) | Src::IntervalAt(_, p) => *p,
    Src::Timer(_, d) => *d,
    _ => 1,
  }
}

fn cutters() -> Vec<Op1> {
  vec![
    Op1::Take(1),
    Op1::First,
    Op1::ElementAt(0),
    Op1::ElementAt(1),
    Op1::TakeWhile(P::Lt1),
    Op1::TakeWhileIncl(P::Lt1),
    Op1::Contains(1),
    Op1::All(P::Lt1),
    Op1::FirstOr(9),
    Op1::TakeUntilTimer(2),
  ]
}

fn stages() -> Vec<Op1> {
  // `tap` is the harness' emission counter right behind the producer; a second
  // tap stage would count every emission twice
  let mut v: Vec<Op1> = list_ops(false).into_iter().filter(|o| *o != Op1::Tap).collect();
  v.extend([
    Op1::Finalize,
    Op1::BoxIt,
    // stages that let nothing through any more by the time the stream is ended
    // by another path (a notifier): they still have to pass the question on
    Op1::Filter(P::Lt1),
    Op1::FilterMap(P::Lt1),
    // still skipping when the stream is ended by another path
    Op1::Skip(5),
    Op1::SkipLast(5),
    Op1::GroupByFlatten(K::Mod2),
    Op1::Delay(1),
    Op1::ObserveOn,
    Op1::Debounce(1),
    Op1::ThrottleTime(1, Edge::All),
    Op1::BufferWithTime(1),
    Op1::BufferWithCountAndTime(2, 1),
    Op1::SampleInterval(1),
    Op1::DelaySubscription(1),
    Op1::SubscribeOn,
  ]);
  v
}

/// stages with observer types of their own, for the depth-3 layer of the
/// thorough tier (the full set cubed would be 2*10^7 pipelines)
fn core_stages() -> Vec<Op1> {
  vec![
    Op1::Map,
    Op1::Filter(P::Lt2),
    Op1::FilterMap(P::Lt2),
    Op1::Skip(1),
    Op1::SkipWhile(P::Lt1),
    Op1::SkipLast(1),
    Op1::StartWith(vec![7]),
    Op1::DefaultIfEmpty(9),
    Op1::Scan,
    Op1::Distinct,
    Op1::DistinctUntilChanged,
    Op1::Pairwise,
    Op1::BufferWithCount(2),
    Op1::OnErrorMap,
    Op1::OnComplete,
    Op1::OnError,
    Op1::Finalize,
    Op1::BoxIt,
    Op1::GroupByFlatten(K::Mod2),
    Op1::Delay(1),
    Op1::ObserveOn,
    Op1::Debounce(1),
    Op1::ThrottleTime(1, Edge::All),
    Op1::BufferWithTime(1),
    Op1::SampleInterval(1),
    Op1::SubscribeOn,
  ]
}

fn sig(p: &Pipe) -> String {
  super::c01::sig(p)
}

/// run the pipeline under the prompt FIFO executor; `hot_script`: per tick,
/// whether the hot inputs emit (explored)
fn retire_job(pipe: Pipe, form: Form, horizon: u64, per: u64, blame: String) -> Job {
  let n_in = pipe.n_inputs();
  Job::new(format!("{form:?} {}", pipe.show()), move |ch, obs| {
    let mut r = Run::prepare(n_in, form);
    r.probe = crate::probe::Probe::with_counters(&r.cx.ctr);
    r.subscribe(&pipe);
    let mut ok = r.drain();
    let mut hist: Vec<String> = vec![];
    let mut term_at: Option<(u64, usize, usize, u64)> = None; // (time, pulls, taps, body polls)
    let mut v = 0i64;
    let mut t = 0u64;
    while (t < horizon || term_at.is_some()) && ok {
      if term_at.is_none() && r.probe.terminated() {
        let rec = r.probe.recs().into_iter().find(|x| x.note.is_terminal()).unwrap();
        term_at = Some((rec.vt, rec.pulls, rec.taps, world::body_polls()));
      }
      if let Some((at, ..)) = term_at {
        if world::now() >= at + per + 2 {
          break;
        }
      }
      // hot inputs (main input of a two-input operator): emit or stay silent
      if n_in > 0 && term_at.is_none() {
        for i in 0..n_in {
          if ch.choose(2) == 1 {
            let ev = Note::N(V::I(v));
            v += 1;
            ch.label(|| format!("t={t} in{i} <- {ev:?}"));
            hist.push(format!("in{i}<-{ev:?}@{t}"));
            r.emit(i, &ev);
            ok &= r.drain();
          }
        }
      }
      if term_at.is_none() && r.probe.terminated() {
        continue;
      }
      ok &= r.tick();
      t += 1;
    }
    obs.checks += 1;
    if !ok {
      obs.capped = true;
      obs.fail(
        format!("c16:poll-storm:{blame}"),
        format!("{} [{}]: more than 10000 task polls without the pool going idle", pipe.show(), hist.join(" ")),
      );
    }
    match term_at {
      None => obs.unspecified += 1,
      Some((at, pulls0, taps0, _polls0)) => {
        let pulls = Counters::get(&r.cx.ctr.pulls);
        let taps = Counters::get(&r.cx.ctr.taps);
        if pulls > pulls0 {
          obs.fail(
            format!("c16:keeps-pulling:{blame}"),
            format!(
              "{} [{}]: the subscriber had its terminal after {pulls0} pulls of the iterator / stream, {} more were made",
              pipe.show(),
              hist.join(" "),
              pulls - pulls0
            ),
          );
        }
        if taps > taps0 + 1 {
          obs.fail(
            format!("c16:keeps-emitting:{blame}"),
            format!(
              "{} [{}]: the subscriber had its terminal at t={at}; the producer emitted {} more items by t={}",
              pipe.show(),
              hist.join(" "),
              taps - taps0,
              world::now()
            ),
          );
        }
        if !r.world.idle() && ok {
          obs.fail(
            format!("c16:not-retired:{blame}"),
            format!(
              "{} [{}]: terminal at t={at}, at t={} there are still {} ready tasks / {} live timers (run-until-idle would not return)",
              pipe.show(),
              hist.join(" "),
              world::now(),
              r.world.ready_len(),
              world::live_timers()
            ),
          );
        }
      }
    }
    obs.delivered = r.probe.len() as u64;
    obs.note_outcome(&r.probe.notes().len());
    obs.note_outcome(&term_at.map(|x| x.0));
    obs.log(|| {
      format!(
        "probe: {} notifications, terminal at {:?}; pulls {} taps {} idle {}",
        r.probe.len(),
        term_at.map(|x| x.0),
        Counters::get(&r.cx.ctr.pulls),
        Counters::get(&r.cx.ctr.taps),
        r.world.idle()
      )
    });
  })
}

fn pname(s: &Src) -> &'static str {
  super::c03::src_name(s)
}

pub fn plan(tier: Tier) -> Plan {
  let depth = match tier {
    Tier::Quick => 1,
    Tier::Thorough => 2,
  };
  let mut jobs = vec![];
  let st = stages();
  let mut n_pipes = 0u64;
  for form in [Form::Local, Form::Threads] {
    for prod in producers() {
      let head = Pipe::S(prod.clone()).o1(Op1::Tap);
      let per = period(&prod);
      // stage sequences of length 0..=depth
      let mut seqs: Vec<Vec<Op1>> = vec![vec![]];
      let mut level: Vec<Vec<Op1>> = vec![vec![]];
      for _ in 0..depth {
        let mut next = vec![];
        for s in &level {
          for o in &st {
            let mut n = s.clone();
            n.push(o.clone());
            next.push(n);
          }
        }
        seqs.extend(next.iter().cloned());
        level = next;
      }
      if tier == Tier::Thorough {
        let core = core_stages();
        for a in &core {
          for b in &core {
            for c in &core {
              seqs.push(vec![a.clone(), b.clone(), c.clone()]);
            }
          }
        }
      }
      for seq in seqs {
        for cut in cutters() {
          let mut p = head.clone();
          for o in &seq {
            p = p.o1(o.clone());
          }
          let p = p.o1(cut.clone());
          // blame: the producer when nothing is in between, else the stages
          let blame = if seq.is_empty() {
            format!("{}:{}", pname(&prod), cut.name())
          } else {
            format!("{}:via:{}", pname(&prod), seq.iter().map(|o| o.name()).collect::<Vec<_>>().join("."))
          };
          n_pipes += 1;
          jobs.push(retire_job(p, form, 14, per + 2, blame));
        }
      }
      // producer as the second / notifier input of every two-input operator,
      // main input hot, output cut; and as the main input with a hot second
      for op2 in Op2::ALL {
        // a producer none of whose items gets through, stream ended by a timer
        let silent = head.clone().o1(Op1::IgnoreElements);
        for p in [
          Pipe::hot(0).o2(op2, silent.clone()).o1(Op1::TakeUntilTimer(2)),
          silent.clone().o2(op2, Pipe::hot(0)).o1(Op1::TakeUntilTimer(2)),
          Pipe::hot(0).o2(op2, head.clone()).o1(Op1::TakeUntilTimer(2)),
        ] {
          n_pipes += 1;
          jobs.push(retire_job(p, form, 5, per + 2, format!("{}:input-of:{}:cut-by-timer", pname(&prod), op2.name())));
        }
        // the producer is subscribed for a subscriber that has already finished
        // (a cold first input satisfied the cutter during its own subscription)
        for cold in [Src::Of(7), Src::Iter(vec![7, 8])] {
          n_pipes += 1;
          let p = Pipe::S(cold).o2(op2, head.clone()).o1(Op1::Take(1));
          jobs.push(retire_job(p, form, 5, per + 2, format!("{}:subscribed-when-finished:{}", pname(&prod), op2.name())));
        }
        for cut in [Op1::Take(1), Op1::First, Op1::Contains(1), Op1::TakeWhile(P::Lt1)] {
          let second = Pipe::hot(0).o2(op2, head.clone()).o1(cut.clone());
          n_pipes += 1;
          jobs.push(retire_job(second, form, 7, per + 2, format!("{}:second-input-of:{}", pname(&prod), op2.name())));
          let first = head.clone().o2(op2, Pipe::hot(0)).o1(cut.clone());
          n_pipes += 1;
          jobs.push(retire_job(first, form, 7, per + 2, format!("{}:first-input-of:{}", pname(&prod), op2.name())));
        }
      }
    }
    // producer as the inner observable of a flattening operator, output cut
    for kind in [FlatKind::MergeAll(2), FlatKind::ConcatAll, FlatKind::FlatMap, FlatKind::ConcatMap, FlatKind::Flatten] {
      for cut in [Op1::Take(1), Op1::Take(2), Op1::First, Op1::TakeWhile(P::Lt1), Op1::TakeUntilTimer(2)] {
        for inners in [vec![InnerSpec::Ticker(1)], vec![InnerSpec::Ticker(2), InnerSpec::Ticker(1)]] {
          n_pipes += 1;
          let p = Pipe::hot(0).o1(Op1::Flat(kind, inners)).o1(cut.clone());
          jobs.push(retire_job(p, form, 7, 4, format!("interval:inner-of:{}", Op1::Flat(kind, vec![]).name())));
        }
      }
    }
    // tickers owned by operators over a hot source
    for t in [Op1::BufferWithTime(1), Op1::BufferWithCountAndTime(2, 1), Op1::SampleInterval(1)] {
      for cut in [Op1::Take(1), Op1::First, Op1::ElementAt(0)] {
        n_pipes += 1;
        jobs.push(retire_job(
          Pipe::hot(0).o1(t.clone()).o1(cut.clone()),
          form,
          7,
          3,
          format!("ticker-of:{}", t.name()),
        ));
      }
    }
  }
  Plan {
    jobs,
    finish: Finish {
      prop: "C16".into(),
      tier: tier_name(tier),
      engine: "E1 opseq".into(),
      rule: "producer in {interval(1|2), interval_at, from_iter over a pull-counting iterator, create() with a producer that polls is_finished(), from_stream / from_stream_result over a poll-counting stream, timer, the tickers of buffer_with_time / buffer_with_count_and_time / sample(interval)} x every sequence up to the depth bound of intermediate catalogue stages x cutter in {take(1), first, element_at(0|1), take_while(_inclusive), contains, all, first_or, take_until(timer)}, and the producer as first and as second / notifier input of every two-input operator whose output is cut (hot other input, every emit/silent pattern per tick); local and _threads forms; prompt FIFO executor on the virtual clock. After the probe's terminal: no further pull of an iterator / stream, at most one more emission of a ticker, and within one period + 2 ticks no ready task and no live timer is left; non-trivial = something was delivered".into(),
      bounds: json!({"stage_depth": depth, "stage_depth_core_stages": if tier == Tier::Thorough { 3 } else { depth }, "core_stages": core_stages().len(), "pipelines": n_pipes, "iterator_items": N_ITEMS}),
      assumptions: vec![
        "pipelines whose cutter never fires within the horizon are counted as skipped_unspecified".into(),
        "share() between producer and cutter is a multicast boundary: its source works for the shared subject, which is released by unsubscribing (C11), not by one subscriber finishing; not part of this check".into(),
      ],
    },
  }
}
