//! C14 — conversions and completion status report the real outcome and never
//! hang (sequential part: every placement of polls among the source events;
//! the producer/waiter race is explored by engine E2).
use super::{tier_name, Plan, Tier};
use crate::probe::Probe;
use crate::report::{Finish, Job};
use crate::val::*;
use crate::world;
use futures::task::ArcWake;
use futures::Stream;
use rxrust::ops::complete_status::CompleteStatus;
use rxrust::ops::future::ObservableError;
use rxrust::prelude::*;
use serde_json::json;
use std::future::Future;
use std::pin::Pin;
use std::sync::atomic::{AtomicUsize, Ordering};
use std::sync::Arc;
use std::task::{Context, Poll};

struct CountWaker(AtomicUsize);
impl ArcWake for CountWaker {
  fn wake_by_ref(a: &Arc<Self>) {
    a.0.fetch_add(1, Ordering::SeqCst);
  }
}

#[derive(Clone, Copy, Debug, PartialEq, Eq)]
enum Conv {
  ToFuture,
  CollectToFuture,
  ToStream,
  Status,
}

fn show_fut(r: &Result<Result<V, E>, ObservableError>) -> String {
  match r {
    Ok(Ok(v)) => format!("Ok(Ok({v:?}))"),
    Ok(Err(e)) => format!("Ok(Err({e:?}))"),
    Err(ObservableError::Empty) => "Err(Empty)".into(),
    Err(ObservableError::MultipleValues) => "Err(MultipleValues)".into(),
  }
}

fn conv_job(conv: Conv, len: usize) -> Job {
  Job::new(format!("{conv:?} L{len}"), move |ch, obs| {
    let _w = world::World::new();
    let mut src = Subject::<'static, V, E>::default();
    // the source may already carry other subscribers: one that has left again
    // (still in the subject's list until the next emission) and/or a live one
    let others = ch.choose(3);
    ch.label(|| ["conversion is the only subscriber", "an earlier subscriber has unsubscribed", "an earlier subscriber is live"][others].to_string());
    let other_probe = Probe::new();
    if others > 0 {
      let u = src.clone().actual_subscribe(other_probe.clone());
      if others == 1 {
        u.unsubscribe();
      }
    }
    let cw = Arc::new(CountWaker(AtomicUsize::new(0)));
    let waker = futures::task::waker(cw.clone());
    let mut cx = Context::from_waker(&waker);
    let mut fut = match conv {
      Conv::ToFuture => Some(src.clone().to_future()),
      Conv::CollectToFuture => Some(src.clone().collect::<Vec<V>>().map(V::from).to_future()),
      _ => None,
    };
    let mut stream = if conv == Conv::ToStream { Some(src.clone().to_stream()) } else { None };
    let probe = Probe::new();
    let status: Option<Arc<CompleteStatus>> = if conv == Conv::Status {
      let (o, st) = src.clone().complete_status();
      o.actual_subscribe(probe.clone());
      Some(st)
    } else {
      None
    };
    // model
    let mut items: Vec<V> = vec![];
    let mut term: Option<Note> = None;
    let mut pending_poll = false; // a poll returned Pending: a waker is registered
    let mut wakes_at_pending = 0usize;
    let mut consumed = 0usize; // stream: messages already yielded
    let mut stream_done = false;
    let mut fut_done = false;
    let mut hist: Vec<String> = vec![];
    let fail = |obs: &mut crate::report::Obs, clause: &str, hist: &Vec<String>, msg: String| {
      obs.fail(format!("c14:{clause}:{conv:?}"), format!("after [{}]: {msg}", hist.join(" ")));
    };
    for _ in 0..len {
      let can_poll = match conv {
        Conv::ToFuture | Conv::CollectToFuture => !fut_done,
        Conv::ToStream => !stream_done,
        Conv::Status => true,
      };
      let mut menu = vec!["next(0)", "next(1)", "complete", "error"];
      if can_poll {
        menu.push("poll");
      }
      let act = menu[ch.choose(menu.len())];
      ch.label(|| act.to_string());
      hist.push(act.to_string());
      world::bump_step();
      let wakes_before = cw.0.load(Ordering::SeqCst);
      if wakes_before > wakes_at_pending {
        // the registered waker has fired: the waiter knows it has to poll again
        pending_poll = false;
      }
      match act {
        "next(0)" | "next(1)" => {
          let v = V::I(if act == "next(0)" { 0 } else { 1 });
          src.next(v.clone());
          if term.is_none() {
            items.push(v);
          }
        }
        "complete" | "error" => {
          let n = if act == "error" { Note::Err(E::E0) } else { Note::C };
          if act == "error" {
            src.clone().error(E::E0);
          } else {
            src.clone().complete();
          }
          if term.is_none() {
            term = Some(n);
            // a waiter parked on the conversion must have been woken by now
            if pending_poll && conv != Conv::Status {
              let wakes = cw.0.load(Ordering::SeqCst);
              if wakes == wakes_before {
                fail(obs, "not-woken", &hist, "a poll was pending, the source terminated, the registered waker was not woken".into());
              }
            }
          }
        }
        "poll" => match conv {
          Conv::ToFuture | Conv::CollectToFuture => {
            let r = Pin::new(fut.as_mut().unwrap()).poll(&mut cx);
            obs.checks += 1;
            match (&term, r) {
              (None, Poll::Pending) => {
                pending_poll = true;
                wakes_at_pending = cw.0.load(Ordering::SeqCst);
              }
              (None, Poll::Ready(r)) => {
                let early_ok = conv == Conv::ToFuture
                  && items.len() >= 2
                  && matches!(r, Err(ObservableError::MultipleValues));
                if !early_ok {
                  fail(obs, "resolved-early", &hist, format!("resolved to {} before the source terminated", show_fut(&r)));
                }
                fut_done = true;
              }
              (Some(_), Poll::Pending) => {
                fail(obs, "pending-after-terminal", &hist, "the source has terminated but the future is still pending".into());
                pending_poll = true;
                wakes_at_pending = cw.0.load(Ordering::SeqCst);
              }
              (Some(t), Poll::Ready(r)) => {
                fut_done = true;
                let ok = match (conv, t) {
                  (Conv::CollectToFuture, Note::C) => matches!(&r, Ok(Ok(V::L(l))) if *l == items),
                  (Conv::CollectToFuture, Note::Err(e)) => matches!(&r, Ok(Err(x)) if x == e),
                  (_, Note::C) => match items.len() {
                    0 => matches!(r, Err(ObservableError::Empty)),
                    1 => matches!(&r, Ok(Ok(v)) if *v == items[0]),
                    _ => matches!(r, Err(ObservableError::MultipleValues)),
                  },
                  (_, Note::Err(e)) => {
                    matches!(&r, Ok(Err(x)) if x == e)
                      || (!items.is_empty() && matches!(r, Err(ObservableError::MultipleValues)))
                  }
                  _ => false,
                };
                if !ok {
                  fail(obs, "wrong-result", &hist, format!("items {items:?} terminal {t:?}: resolved to {}", show_fut(&r)));
                }
              }
            }
          }
          Conv::ToStream => {
            let r = Pin::new(stream.as_mut().unwrap()).poll_next(&mut cx);
            obs.checks += 1;
            // expected message list so far
            let mut msgs: Vec<Result<V, E>> = items.iter().cloned().map(Ok).collect();
            if let Some(Note::Err(e)) = &term {
              msgs.push(Err(*e));
            }
            let exp: Poll<Option<Result<V, E>>> = if consumed < msgs.len() {
              Poll::Ready(Some(msgs[consumed].clone()))
            } else if term.is_some() {
              Poll::Ready(None)
            } else {
              Poll::Pending
            };
            if r != exp {
              let clause = if term.is_some() && r.is_pending() { "pending-after-terminal" } else { "wrong-item" };
              fail(obs, clause, &hist, format!("poll_next gave {r:?}, expected {exp:?}"));
            }
            match r {
              Poll::Ready(Some(_)) => consumed += 1,
              Poll::Ready(None) => stream_done = true,
              Poll::Pending => {
                pending_poll = true;
                wakes_at_pending = cw.0.load(Ordering::SeqCst);
              }
            }
          }
          Conv::Status => {}
        },
        _ => unreachable!(),
      }
      if let Some(st) = &status {
        obs.checks += 1;
        let want = (
          term.is_some(),
          term == Some(Note::C),
          matches!(term, Some(Note::Err(_))),
        );
        let got = (st.is_closed(), st.is_completed(), st.error_occur());
        if got != want {
          fail(obs, "status-flags", &hist, format!("(is_closed, is_completed, error_occur) = {got:?}, expected {want:?}"));
        }
        if st.is_closed() {
          // must return at once
          CompleteStatus::wait_for_end(st.clone());
        }
        let exp: Vec<Note> = {
          let mut v: Vec<Note> = items.iter().cloned().map(Note::N).collect();
          v.extend(term.clone());
          v
        };
        if probe.notes() != exp {
          fail(obs, "status-passthrough", &hist, format!("subscriber saw [{}] expected [{}]", fmt_notes(&probe.notes()), fmt_notes(&exp)));
        }
      }
      if !obs.viol.is_empty() {
        break;
      }
    }
    // closing: once the source has terminated the conversion must become ready
    if obs.viol.is_empty() && term.is_some() {
      obs.checks += 1;
      match conv {
        Conv::ToFuture | Conv::CollectToFuture if !fut_done => {
          if Pin::new(fut.as_mut().unwrap()).poll(&mut cx).is_pending() {
            fail(obs, "pending-after-terminal", &hist, "final poll: the source has terminated but the future is still pending".into());
          }
        }
        Conv::ToStream if !stream_done => {
          let mut n = 0;
          loop {
            match Pin::new(stream.as_mut().unwrap()).poll_next(&mut cx) {
              Poll::Ready(Some(_)) => n += 1,
              Poll::Ready(None) => break,
              Poll::Pending => {
                fail(obs, "pending-after-terminal", &hist, format!("draining: after {n} more items the stream is pending although the source has terminated"));
                break;
              }
            }
            if n > 16 {
              fail(obs, "wrong-item", &hist, "stream yields more than the source emitted".into());
              break;
            }
          }
        }
        _ => {}
      }
    }
    obs.delivered = (items.len() + term.is_some() as usize) as u64;
    obs.note_outcome(&items);
    obs.note_outcome(&term);
    obs.note_outcome(&consumed);
    obs.log(|| format!("items {items:?} terminal {term:?} wakes {}", cw.0.load(Ordering::SeqCst)));
  })
}

/// complete_status() with an operator below it that ends the stream early: the
/// status follows the *source*. A cold source pushes its terminal also to an
/// observer whose downstream has finished; the status must record it
/// ("reports completed or error exactly when the source has terminated").
fn status_cut_job(src: crate::ast::Src, op: Option<crate::ast::Op1>, cut: usize) -> Job {
  use crate::ast::*;
  use crate::drive::*;
  let pipe = match op {
    Some(op) => Pipe::S(src.clone()).o1(op),
    None => Pipe::S(src.clone()),
  };
  Job::new(format!("{}.complete_status().take({cut})", pipe.show()), move |_ch, obs| {
    let r = Run::prepare(1, Form::Local);
    let (o, st) = build_local(&pipe, &r.cx).complete_status();
    let _u = o.take(cut).actual_subscribe(r.probe.clone());
    obs.checks += 1;
    if let Some(exp) = crate::model::chain(&pipe, &Seq::open()) {
      let (closed, completed, failed) = (st.is_closed(), st.is_completed(), st.error_occur());
      let want = match exp.t {
        T::C => (true, true, false),
        T::Err(_) => (true, false, true),
        T::Open => (false, false, false),
      };
      if (closed, completed, failed) != want {
        obs.fail(
          "c14:status-not-following-the-source:Status",
          format!(
            "{}.complete_status().take({cut}): the source delivers [{}]; is_closed()={closed} is_completed()={completed} error_occur()={failed}",
            pipe.show(),
            fmt_notes(&exp.notes())
          ),
        );
      }
    }
    obs.delivered = r.probe.len() as u64 + 1;
    obs.note_outcome(&r.probe.notes());
  })
}

pub fn plan(tier: Tier) -> Plan {
  let len = match tier {
    Tier::Quick => 8,
    Tier::Thorough => 11,
  };
  let mut jobs = vec![];
  for c in [Conv::ToFuture, Conv::CollectToFuture, Conv::ToStream, Conv::Status] {
    for others in 0..3 {
      for first in 0..5 {
        jobs.push(conv_job(c, len).root(vec![others, first]));
      }
    }
  }
  {
    use crate::ast::{NoteSpec::*, Src};
    for src in [
      Src::Iter(vec![0, 1, 2]),
      Src::Of(1),
      Src::Create(vec![N(0), N(1), C]),
      Src::Create(vec![N(0), N(1), Err(E::E1)]),
      Src::Create(vec![N(0), C]),
      Src::Empty,
      Src::Throw(E::E1),
      // a producer that asks its subscriber is_finished() before every item
      Src::CreatePolling(3),
    ] {
      for cut in [0usize, 1, 2] {
        jobs.push(status_cut_job(src.clone(), None, cut));
        // ... and with every catalogue stage between the source and the status:
        // a stage hands the terminal on whether or not downstream has finished
        for op in crate::catalogue::list_ops(false) {
          jobs.push(status_cut_job(src.clone(), Some(op), cut));
        }
      }
    }
  }
  Plan {
    jobs,
    finish: Finish {
      prop: "C14".into(),
      tier: tier_name(tier),
      engine: "E1 opseq".into(),
      rule: "to_future(), collect().to_future(), to_stream(), complete_status() over a hot source: every sequence up to the length bound over {next(0), next(1), complete, error, poll} (polls before, between and after the source events, events after the terminal included) with a counting waker; oracle at every poll: documented result, Pending only while the source is open, Ready once it has terminated (stream: all items, the error, then None), a registered waker is woken by the terminal, status flags flip exactly at the terminal and wait_for_end returns; complete_status() over cold sources, alone and under every catalogue stage with a list model, with take(0|1|2) below it: the status follows the terminal of what it observes although downstream has finished; non-trivial = the source emitted something".into(),
      bounds: json!({"sequence_len": len}),
      assumptions: vec!["to_future on `item(s) then error`: Ok(Err(e)) or Err(MultipleValues) are both accepted".into()],
    },
  }
}
