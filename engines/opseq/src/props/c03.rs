//! C03 — sources and single-input operators compute their documented sequence.
use super::{tier_name, Plan, Tier};
use crate::ast::*;
use crate::catalogue::*;
use crate::drive::*;
use crate::model;
use crate::report::{Finish, Job, Obs};
use crate::val::*;
use serde_json::json;

fn mk_chain(head: Pipe, ops: &[Op1]) -> Pipe {
  ops.iter().fold(head, |p, op| p.o1(op.clone()))
}

/// run `head.ops[..k]` on the given history and compare the final trace
fn stage_ok(head: &Src, ops: &[Op1], hist: &[Note]) -> bool {
  let pipe = mk_chain(Pipe::S(head.clone()), ops);
  let mut r = Run::start(&pipe, Form::Local);
  for ev in hist {
    r.emit(0, ev);
  }
  match model::chain(&pipe, &model::normalize(hist)) {
    Some(exp) => exp.notes() == r.probe.notes(),
    None => true,
  }
}

/// name of the first stage whose own prefix chain already disagrees with the
/// model on this input
fn blame(head: &Src, ops: &[Op1], hist: &[Note]) -> String {
  for k in 0..=ops.len() {
    if !stage_ok(head, &ops[..k], hist) {
      return if k == 0 {
        format!("src:{}", src_name(head))
      } else {
        ops[k - 1].name().to_string()
      };
    }
  }
  // only the composition fails
  ops.iter().map(|o| o.name()).collect::<Vec<_>>().join("+")
}

pub fn src_name(s: &Src) -> &'static str {
  match s {
    Src::Hot(_) => "subject",
    Src::Raw(_) => "create(hot)",
    Src::RawEager(_) => "create(hot, eager first item)",
    Src::Iter(_) | Src::IntoIter(_) => "from_iter",
    Src::Create(_) => "create",
    Src::CreatePolling(_) => "create(polling)",
    Src::Of(_) => "of",
    Src::OfFn(_) => "of_fn",
    Src::Start(_) => "start",
    Src::OfOption(_) => "of_option",
    Src::OfResult(_) => "of_result",
    Src::Repeat(..) => "repeat",
    Src::Empty => "empty",
    Src::Never => "never",
    Src::Throw(_) => "throw",
    Src::Defer(_) => "defer",
    Src::Interval(_) => "interval",
    Src::IntervalAt(..) => "interval_at",
    Src::Timer(..) => "timer",
    Src::TimerAt(..) => "timer_at",
    Src::StreamCount(_) => "from_stream",
    Src::StreamResultCount(_) => "from_stream_result",
    Src::IterCount(_) => "from_iter",
    Src::FromFuture(_) => "from_future",
    Src::FromFutureResult(_) => "from_future_result",
  }
}

fn compare(
  obs: &mut Obs,
  head: &Src,
  ops: &[Op1],
  pipe: &Pipe,
  hist: &[Note],
  r: &Run,
) {
  let got = r.probe.notes();
  obs.checks += 1;
  match model::chain(pipe, &model::normalize(hist)) {
    None => obs.unspecified += 1,
    Some(exp) => {
      let e = exp.notes();
      if e != got {
        let b = blame(head, ops, hist);
        obs.fail(
          format!("seq:{b}"),
          format!(
            "{} on [{}]: expected [{}] got [{}]",
            pipe.show(),
            fmt_notes(hist),
            fmt_notes(&e),
            fmt_notes(&got)
          ),
        );
      }
    }
  }
}

/// hot head: events are delivered one by one, the oracle is evaluated after each
fn hot_job(head: Src, ops: Vec<Op1>, len: usize) -> Job {
  let pipe = mk_chain(Pipe::S(head.clone()), &ops);
  Job::new(format!("hot L{len} {}", pipe.show()), move |ch, obs| {
    let mut r = Run::start(&pipe, Form::Local);
    let mut hist: Vec<Note> = vec![];
    compare(obs, &head, &ops, &pipe, &hist, &r);
    for _ in 0..len {
      let ev = alpha(ch.choose(ALPHA));
      ch.label(|| format!("in0 <- {ev:?}"));
      r.emit(0, &ev);
      hist.push(ev);
      compare(obs, &head, &ops, &pipe, &hist, &r);
      if !obs.viol.is_empty() {
        break;
      }
    }
    obs.delivered = r.probe.len() as u64;
    obs.note_outcome(&r.probe.notes());
    obs.log(|| format!("probe: [{}]", fmt_notes(&r.probe.notes())));
  })
}

/// the same scripts delivered cold: `create(|s| script)` and, when the script
/// completes normally, `from_iter(items)`
fn cold_script_job(ops: Vec<Op1>, len: usize) -> Job {
  let name = format!(
    "cold-scripts L{len} .{}",
    ops.iter().map(|o| format!("{o:?}")).collect::<Vec<_>>().join(".")
  );
  Job::new(name, move |ch, obs| {
    let mut script: Vec<NoteSpec> = vec![];
    for _ in 0..len {
      // 0..2 items, complete, error, or end of script (no terminal)
      let k = ch.choose(ALPHA + 1);
      if k == ALPHA {
        break;
      }
      let n = match alpha(k) {
        Note::N(V::I(n)) => NoteSpec::N(n),
        Note::C => NoteSpec::C,
        Note::Err(e) => NoteSpec::Err(e),
        _ => unreachable!(),
      };
      let term = !matches!(n, NoteSpec::N(_));
      script.push(n);
      if term {
        break;
      }
    }
    ch.label(|| format!("script {script:?}"));
    let mut heads = vec![Src::Create(script.clone())];
    if script.last() == Some(&NoteSpec::C) {
      let items = script
        .iter()
        .filter_map(|n| if let NoteSpec::N(v) = n { Some(*v) } else { None })
        .collect();
      heads.push(Src::Iter(items));
    }
    for head in heads {
      let pipe = mk_chain(Pipe::S(head.clone()), &ops);
      let r = Run::start(&pipe, Form::Local);
      compare(obs, &head, &ops, &pipe, &[], &r);
      obs.delivered += r.probe.len() as u64;
      obs.note_outcome(&r.probe.notes());
      obs.log(|| format!("{}: [{}]", pipe.show(), fmt_notes(&r.probe.notes())));
    }
  })
}

fn cold_src_job(head: Src, ops: Vec<Op1>) -> Job {
  let pipe = mk_chain(Pipe::S(head.clone()), &ops);
  Job::new(format!("cold {}", pipe.show()), move |_ch, obs| {
    let r = Run::start(&pipe, Form::Local);
    compare(obs, &head, &ops, &pipe, &[], &r);
    obs.delivered = r.probe.len() as u64;
    obs.note_outcome(&r.probe.notes());
    obs.log(|| format!("probe: [{}]", fmt_notes(&r.probe.notes())));
  })
}


/// A basic source observed directly by a subscriber that reports itself
/// finished after `k` notifications. The documented sequence of these sources
/// does not depend on that answer except that the source may stop early: what
/// arrives is a prefix of the documented items, at least `k` of them (or all),
/// then the documented terminal, once. `on_complete`, `finalize` or
/// `complete_status` placed above a `take` sit exactly in this position.
fn sated_job(head: Src, k: usize, form: Form) -> Job {
  use rxrust::prelude::*;
  let pipe = Pipe::S(head.clone());
  Job::new(format!("sated-after-{k} {form:?} {}", pipe.show()), move |_ch, obs| {
    let r = Run::prepare(0, form);
    let o = Sated { probe: r.probe.clone(), k };
    match form {
      Form::Local => {
        build_local(&pipe, &r.cx).actual_subscribe(o);
      }
      Form::Threads => {
        build_threads(&pipe, &r.cx).actual_subscribe(o);
      }
    }
    obs.checks += 1;
    let got = r.probe.seq();
    if let Some(exp) = model::src(&head) {
      let prefix = got.items.len() <= exp.items.len() && exp.items[..got.items.len()] == got.items[..];
      let enough = got.items.len() >= k.min(exp.items.len());
      if !(prefix && enough && got.t == exp.t && r.probe.grammar_ok()) {
        obs.fail(
          format!("seq:src:{}:to-finished-observer", src_name(&head)),
          format!(
            "{} observed by a subscriber that reports finished after {k} notifications: documented [{}], delivered [{}] (expected a prefix of at least {} items, then the documented terminal)",
            pipe.show(),
            fmt_notes(&exp.notes()),
            fmt_notes(&r.probe.notes()),
            k.min(exp.items.len())
          ),
        );
      }
    } else {
      obs.unspecified += 1;
    }
    obs.delivered = r.probe.len() as u64;
    obs.note_outcome(&r.probe.notes());
    obs.log(|| format!("probe: [{}]", fmt_notes(&r.probe.notes())));
  })
}


/// The same for the operators: `create(hot) . op` observed by a subscriber that
/// reports finished after `k` notifications, driven through every history. An
/// operator may stop early but must still hand on the terminal its documented
/// sequence ends with (`finalize`, `on_complete`, `complete_status` above a
/// `take` are observers of exactly this kind).
fn sated_hot_job(ops: Vec<Op1>, k: usize, len: usize) -> Job {
  use rxrust::prelude::*;
  let head = Src::Raw(0);
  let pipe = mk_chain(Pipe::S(head.clone()), &ops);
  Job::new(format!("sated-after-{k} hot L{len} {}", pipe.show()), move |ch, obs| {
    let mut r = Run::prepare(1, Form::Local);
    let o = Sated { probe: r.probe.clone(), k };
    let _u = build_local(&pipe, &r.cx).actual_subscribe(o);
    let mut hist: Vec<Note> = vec![];
    for _ in 0..len {
      let ev = alpha4(ch.choose(ALPHA4));
      ch.label(|| format!("in0 <- {ev:?}"));
      r.emit(0, &ev);
      hist.push(ev);
      obs.checks += 1;
      let got = r.probe.seq();
      match model::chain(&pipe, &model::normalize(&hist)) {
        None => obs.unspecified += 1,
        Some(exp) => {
          let prefix = got.items.len() <= exp.items.len() && exp.items[..got.items.len()] == got.items[..];
          let enough = got.items.len() >= k.min(exp.items.len());
          if !(prefix && enough && got.t == exp.t && r.probe.grammar_ok()) {
            obs.fail(
              format!("seq:{}:to-finished-observer", ops.iter().map(|o| o.name()).collect::<Vec<_>>().join("+")),
              format!(
                "{} on [{}] observed by a subscriber that reports finished after {k} notifications: documented [{}], delivered [{}] (expected a prefix of at least {} items, then the documented terminal)",
                pipe.show(),
                fmt_notes(&hist),
                fmt_notes(&exp.notes()),
                fmt_notes(&r.probe.notes()),
                k.min(exp.items.len())
              ),
            );
            break;
          }
        }
      }
    }
    obs.delivered = r.probe.len() as u64;
    obs.note_outcome(&r.probe.notes());
    obs.log(|| format!("probe: [{}]", fmt_notes(&r.probe.notes())));
  })
}

/// statically typed chains (no boxing between the stages) against the model of
/// the same operator list: shows that `box_it` between stages is transparent
fn typed_job(id: usize, len: usize) -> Job {
  use crate::probe::Probe;
  use crate::world;
  use rxrust::prelude::*;
  let ops: Vec<Op1> = match id {
    0 => vec![Op1::Map, Op1::Filter(P::Lt2), Op1::Take(2)],
    1 => vec![Op1::Skip(1), Op1::Scan, Op1::Last],
    2 => vec![Op1::TakeWhile(P::Lt2), Op1::Count],
    3 => vec![Op1::Distinct, Op1::Pairwise],
    4 => vec![Op1::BufferWithCount(2), Op1::SkipLast(1)],
    5 => vec![Op1::StartWith(vec![7]), Op1::TakeLast(2)],
    6 => vec![Op1::FirstOr(9), Op1::DefaultIfEmpty(9)],
    7 => vec![Op1::Contains(1), Op1::OnErrorMap],
    8 => vec![Op1::SkipWhile(P::Lt1), Op1::Min],
    _ => vec![Op1::ElementAt(1), Op1::Sum],
  };
  let pipe = mk_chain(Pipe::hot(0), &ops);
  Job::new(format!("typed (unboxed) L{len} {}", pipe.show()), move |ch, obs| {
    let _w = world::World::new();
    let mut src = Subject::<'static, V, E>::default();
    let probe = Probe::new();
    let s = src.clone();
    match id {
      0 => {
        s.map(inc).filter(|v| P::Lt2.ev(v)).take(2).actual_subscribe(probe.clone());
      }
      1 => {
        s.skip(1).scan(|a: V, v: V| a + v).last().actual_subscribe(probe.clone());
      }
      2 => {
        s.take_while(|v| P::Lt2.ev(v)).count().map(V::from).actual_subscribe(probe.clone());
      }
      3 => {
        s.distinct().pairwise().map(V::from).actual_subscribe(probe.clone());
      }
      4 => {
        s.buffer_with_count(2).map(V::from).skip_last(1).actual_subscribe(probe.clone());
      }
      5 => {
        s.start_with(vec![V::I(7)]).take_last(2).actual_subscribe(probe.clone());
      }
      6 => {
        s.first_or(V::I(9)).default_if_empty(V::I(9)).actual_subscribe(probe.clone());
      }
      7 => {
        s.contains(V::I(1)).map(V::from).on_error_map(E::swap).actual_subscribe(probe.clone());
      }
      8 => {
        s.skip_while(|v| P::Lt1.ev(v)).min().actual_subscribe(probe.clone());
      }
      _ => {
        s.element_at(1).sum().actual_subscribe(probe.clone());
      }
    }
    let mut hist: Vec<Note> = vec![];
    for _ in 0..len {
      let ev = alpha(ch.choose(ALPHA));
      ch.label(|| format!("in0 <- {ev:?}"));
      world::bump_step();
      match &ev {
        Note::N(v) => src.next(v.clone()),
        Note::C => src.clone().complete(),
        Note::Err(e) => src.clone().error(*e),
      }
      hist.push(ev);
      obs.checks += 1;
      if let Some(exp) = model::chain(&pipe, &model::normalize(&hist)) {
        let got = probe.notes();
        if exp.notes() != got {
          obs.fail(
            format!("seq:typed:{}", ops.iter().map(|o| o.name()).collect::<Vec<_>>().join(".")),
            format!(
              "unboxed {} on [{}]: expected [{}] got [{}]",
              pipe.show(),
              fmt_notes(&hist),
              fmt_notes(&exp.notes()),
              fmt_notes(&got)
            ),
          );
          break;
        }
      } else {
        obs.unspecified += 1;
      }
    }
    obs.delivered = probe.len() as u64;
    obs.note_outcome(&probe.notes());
  })
}

fn op_seqs(ops: &[Op1], depth: usize) -> Vec<Vec<Op1>> {
  let mut out: Vec<Vec<Op1>> = vec![vec![]];
  let mut level: Vec<Vec<Op1>> = vec![vec![]];
  for _ in 0..depth {
    let mut next = vec![];
    for c in &level {
      for op in ops {
        let mut n = c.clone();
        n.push(op.clone());
        next.push(n);
      }
    }
    out.extend(next.iter().cloned());
    level = next;
  }
  out
}

pub fn plan(tier: Tier) -> Plan {
  let mut jobs = vec![];
  let full = list_ops(true);
  let reduced = list_ops(false);
  // (operator set, depth, history length)
  let configs: Vec<(&Vec<Op1>, usize, usize)> = match tier {
    Tier::Quick => vec![(&full, 1, 5), (&reduced, 2, 4)],
    Tier::Thorough => vec![(&full, 1, 6), (&full, 2, 5), (&reduced, 3, 5)],
  };
  let mut bounds = vec![];
  for (ops, depth, len) in configs {
    bounds.push(json!({"operators": ops.len(), "depth": depth, "history_len": len}));
    for seq in op_seqs(ops, depth) {
      jobs.push(hot_job(Src::Hot(0), seq.clone(), len));
      if seq.len() <= 1 {
        jobs.push(hot_job(Src::Raw(0), seq.clone(), len));
      }
      jobs.push(cold_script_job(seq.clone(), len.min(4)));
      if seq.len() <= 2 {
        for s in cold_sources() {
          jobs.push(cold_src_job(s, seq.clone()));
        }
      }
    }
  }
  for s in cold_sources() {
    // a script run by `create` goes through `Subscriber`, which is the piece
    // that swallows notifications after a terminal: same expectation
    for k in 0..3 {
      jobs.push(sated_job(s.clone(), k, Form::Local));
      jobs.push(sated_job(s.clone(), k, Form::Threads));
    }
  }
  for op in &full {
    for k in 0..3 {
      jobs.push(sated_hot_job(vec![op.clone()], k, 4));
    }
  }
  for id in 0..10 {
    jobs.push(typed_job(id, if tier == Tier::Quick { 5 } else { 7 }));
  }
  Plan {
    jobs,
    finish: Finish {
      prop: "C03".into(),
      tier: tier_name(tier),
      engine: "E1 opseq".into(),
      rule: "every chain of catalogue operators up to the depth bound x every event history over {next(0..2), complete, error} up to the length bound on a hot subject / hot create() head (oracle after every event), the same scripts delivered cold through create() and from_iter(), and every basic cold source, also observed directly by a subscriber that reports itself finished after 0, 1 or 2 notifications (prefix of the documented items, then the documented terminal); an execution is non-trivial when at least one notification reached the probe; executions are distinct by construction (distinct scenario x choice vector)".into(),
      bounds: json!(bounds),
      assumptions: vec![
        "boxing every stage (box_it) is observationally transparent; spot-checked by ten statically typed, unboxed three-stage chains run against the same model".into(),
        "take(0) on an input that does not complete, buffer_with_count(0): unspecified, not asserted".into(),
      ],
    },
  }
}
