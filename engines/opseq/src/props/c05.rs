//! C05 — flattening delivers every inner item once and honours the limit.
use super::{tier_name, Plan, Tier};
use crate::ast::*;
use crate::drive::*;
use crate::model::{self, FlatEv};
use crate::report::{Finish, Job};
use crate::val::*;
use serde_json::json;

fn form_name(f: Form) -> &'static str {
  if f == Form::Local {
    "local"
  } else {
    "threads"
  }
}

fn flat_job(kind: FlatKind, inners: Vec<InnerSpec>, form: Form, len: usize) -> Job {
  let pipe = Pipe::hot(0).o1(Op1::Flat(kind, inners.clone()));
  let n_in = pipe.n_inputs();
  let k = inners.len();
  // actions: outer next(i) for each inner, outer complete, outer error, then
  // per hot inner input: next, complete, error
  let hot_inputs: Vec<usize> = (1..n_in).collect();
  let n_act = k + 2 + 3 * hot_inputs.len();
  let limit = kind.limit();
  Job::new(format!("{} L{len} {}", form_name(form), pipe.show()), move |ch, obs| {
    let mut r = Run::start(&pipe, form);
    let mut evs: Vec<FlatEv> = vec![];
    let mut hist: Vec<String> = vec![];
    for _ in 0..len {
      let a = ch.choose(n_act);
      let (input, note) = if a < k {
        (0, Note::N(V::I(a as i64)))
      } else if a == k {
        (0, Note::C)
      } else if a == k + 1 {
        (0, Note::Err(E::E0))
      } else {
        let b = a - (k + 2);
        let i = hot_inputs[b / 3];
        (
          i,
          match b % 3 {
            0 => Note::N(V::I(10 * i as i64)),
            1 => Note::C,
            _ => Note::Err(E::E1),
          },
        )
      };
      ch.label(|| format!("in{input} <- {note:?}"));
      hist.push(format!("in{input}<-{note:?}"));
      r.emit(input, &note);
      evs.push(if input == 0 { FlatEv::Outer(note) } else { FlatEv::Hot(input, note) });
      obs.checks += 1;
      let exp = model::flatten_model(limit, &inners, &evs);
      let got = r.probe.notes();
      if exp.out.notes() != got {
        obs.fail(
          format!("c05:output:{}:{}", Op1::Flat(kind, vec![]).name(), form_name(form)),
          format!(
            "{} after [{}]: expected [{}] got [{}]",
            pipe.show(),
            hist.join(" "),
            fmt_notes(&exp.out.notes()),
            fmt_notes(&got)
          ),
        );
        break;
      }
      let live_max = Counters::get(&r.cx.ctr.inner_live_max);
      if live_max > limit {
        obs.fail(
          format!("c05:limit:{}:{}", Op1::Flat(kind, vec![]).name(), form_name(form)),
          format!(
            "{} after [{}]: {} inner observables subscribed at once, limit {}",
            pipe.show(),
            hist.join(" "),
            live_max,
            limit
          ),
        );
        break;
      }
    }
    obs.delivered = r.probe.len() as u64;
    obs.note_outcome(&r.probe.notes());
    obs.note_outcome(&Counters::get(&r.cx.ctr.inner_subs));
    obs.log(|| {
      format!(
        "probe: [{}] inner subscriptions {} max live {}",
        fmt_notes(&r.probe.notes()),
        Counters::get(&r.cx.ctr.inner_subs),
        Counters::get(&r.cx.ctr.inner_live_max)
      )
    });
  })
  .panics_violate()
  .sig(format!("{}:{}", Op1::Flat(kind, vec![]).name(), form_name(form)))
}

/// "without ... blocking", for a synchronous outer source: once the flattened
/// stream has failed (an inner observable failed) the outer iterator is not
/// drained any further — an unbounded one would never return from `subscribe`.
/// The outer is a pull-counting `from_iter` of 200 selectors; inner 0 is
/// `[5, complete]`, inner 1 fails.
fn outer_stops_job(kind: FlatKind, form: Form) -> Job {
  use InnerSpec::Cold;
  use NoteSpec::{C, N};
  let pipe = Pipe::S(Src::IterCount(200)).o1(Op1::Flat(
    kind,
    vec![Cold(vec![N(5), C]), Cold(vec![NoteSpec::Err(E::E1)])],
  ));
  Job::new(format!("{} {} outer drained after failure?", form_name(form), pipe.show()), move |_ch, obs| {
    let r = Run::start(&pipe, form);
    obs.checks += 1;
    let pulls = Counters::get(&r.cx.ctr.pulls);
    let got = r.probe.notes();
    if got != vec![Note::N(V::I(5)), Note::Err(E::E1)] {
      obs.fail(
        format!("c05:output:{}:{}", Op1::Flat(kind, vec![]).name(), form_name(form)),
        format!("{}: expected [5 !E1] got [{}]", pipe.show(), fmt_notes(&got)),
      );
    } else if pulls > 3 {
      obs.fail(
        format!("c05:outer-drained-after-failure:{}:{}", Op1::Flat(kind, vec![]).name(), form_name(form)),
        format!(
          "{}: the stream failed at the second outer item, yet {pulls} items were pulled from the outer iterator (an unbounded outer would never return)",
          pipe.show()
        ),
      );
    }
    obs.delivered = got.len() as u64;
    obs.note_outcome(&(got, pulls.min(4)));
  })
}

pub fn plan(tier: Tier) -> Plan {
  use InnerSpec::*;
  use NoteSpec::{C, N};
  let tables: Vec<Vec<InnerSpec>> = vec![
    vec![Hot(1), Cold(vec![N(5), C]), Cold(vec![N(6), N(7), C])],
    vec![Hot(1), Hot(2), Cold(vec![N(5), C])],
    vec![Hot(1), Cold(vec![NoteSpec::Err(E::E1)]), Cold(vec![N(5)])],
    vec![Cold(vec![C]), Hot(1), Hot(1)],
  ];
  let (len, len3) = match tier {
    Tier::Quick => (5, 4),
    Tier::Thorough => (7, 6),
  };
  let kinds = [
    // boundary: no inner observable is ever admitted (and so the result never completes)
    FlatKind::MergeAll(0),
    FlatKind::MergeAll(1),
    FlatKind::MergeAll(2),
    FlatKind::MergeAll(3),
    FlatKind::MergeAll(4),
    FlatKind::MergeAll(usize::MAX),
    FlatKind::ConcatAll,
    FlatKind::Flatten,
    FlatKind::FlatMap,
    FlatKind::ConcatMap,
  ];
  let mut jobs = vec![];
  for form in [Form::Local, Form::Threads] {
    for kind in kinds {
      for t in &tables {
        let three = t.iter().any(|i| matches!(i, Hot(2)));
        jobs.push(flat_job(kind, t.clone(), form, if three { len3 } else { len }));
      }
      if kind != FlatKind::MergeAll(0) {
        jobs.push(outer_stops_job(kind, form));
      }
    }
  }
  Plan {
    jobs,
    finish: Finish {
      prop: "C05".into(),
      tier: tier_name(tier),
      engine: "E1 opseq".into(),
      rule: "outer hot subject emitting up to 3 different inner observables (cold-synchronous scripts incl. erroring and never-terminating ones, hot subjects driven later, the same hot subject twice) through merge_all(1..4, MAX), concat_all, flatten, flat_map, concat_map in local and _threads form: every interleaving up to the length bound of outer items/terminals and inner items/terminals; exact output against a FIFO-of-waiting-inners reference model after every event, live-inner counter never above the limit, a panic or a call that never returns is a violation; non-trivial = at least one notification reached the probe".into(),
      bounds: json!({"history_len": len, "history_len_three_inputs": len3, "inner_tables": tables.len(), "kinds": kinds.len(), "forms": 2}),
      assumptions: vec!["an inner bound to an already terminated subject never completes (subjects hand out closed subscribers), so it keeps its slot".into()],
    },
  }
}
