//! C12 — BehaviorSubject hands every new subscriber the current value first
//! (sequential part; the two-producer race is explored by engine E2).
use super::{tier_name, Plan, Tier};
use crate::probe::Probe;
use crate::report::{Finish, Job};
use crate::val::*;
use crate::world;
use rxrust::prelude::*;
use serde_json::json;

const INIT: i64 = 9;
const MAX_SUBS: usize = 3;

macro_rules! beh_job {
  ($fname:ident, $subj:ty, $label:expr) => {
    fn $fname(len: usize) -> Job {
      Job::new(format!("BehaviorSubject<{}> ops L{len}", $label), move |ch, obs| {
        let _w = world::World::new();
        type B = BehaviorSubject<V, $subj>;
        let mut h: Vec<B> = vec![B::new(V::I(INIT))];
        h.push(h[0].clone());
        // what peek() answered inside callbacks: (item being delivered, peek())
        let peeks: std::rc::Rc<std::cell::RefCell<Vec<(V, V)>>> = Default::default();
        // probes subscribed from inside a callback, with the item in flight
        let nested: std::rc::Rc<std::cell::RefCell<Vec<(Probe, V)>>> = Default::default();
        let mut nested_seen = 0usize;
        let mut probes: Vec<Probe> = vec![];
        let mut subs: Vec<Option<<B as Observable<V, E, Probe>>::Unsub>> = vec![];
        // model
        let mut value = V::I(INIT);
        let mut open = true;
        let mut live: Vec<bool> = vec![];
        let mut expect: Vec<Vec<Note>> = vec![];
        let mut hist: Vec<String> = vec![];
        for _ in 0..len {
          let mut menu: Vec<(&str, usize)> = vec![];
          if probes.len() < MAX_SUBS {
            menu.push(("subscribe@h0", 0));
            menu.push(("subscribe@h1", 1));
            menu.push(("subscribe-peeking", 0));
            menu.push(("subscribe-nesting", 0));
          }
          for k in 0..subs.len() {
            if subs[k].is_some() {
              menu.push(("unsubscribe", k));
            }
          }
          menu.extend([
            ("next(0)@h0", 0),
            ("next(1)@h1", 1),
            ("next_by(+1)@h0", 0),
            ("next_by(+1)@h1", 1),
            ("reclone h1", 0),
            ("complete@h1", 1),
            ("error@h0", 0),
            ("unsubscribe-subject", 0),
          ]);
          let (act, arg) = menu[ch.choose(menu.len())];
          ch.label(|| format!("{act}"));
          hist.push(act.to_string());
          world::bump_step();
          let mut emit = |v: V, value: &mut V, expect: &mut Vec<Vec<Note>>, live: &Vec<bool>| {
            *value = v.clone();
            if open {
              for (k, l) in live.iter().enumerate() {
                if *l {
                  expect[k].push(Note::N(v.clone()));
                }
              }
            }
          };
          match act {
            "subscribe-peeking" | "subscribe-nesting" => {
              let hb = h[0].clone();
              let p = if act == "subscribe-peeking" {
                let pk = peeks.clone();
                Probe::with_hook(move |v| pk.borrow_mut().push((v.clone(), hb.peek())))
              } else {
                let ns = nested.clone();
                let mut armed = true;
                // the very first delivery is the current value handed over during
                // subscribe(); nest on the first *broadcast* item
                let mut first = true;
                Probe::with_hook(move |v| {
                  if first {
                    first = false;
                    return;
                  }
                  if armed {
                    armed = false;
                    let np = Probe::new();
                    ns.borrow_mut().push((np.clone(), v.clone()));
                    let _ = hb.clone().actual_subscribe(np);
                  }
                })
              };
              probes.push(p.clone());
              subs.push(Some(h[0].clone().actual_subscribe(p)));
              live.push(open);
              expect.push(vec![Note::N(value.clone())]);
            }
            "subscribe@h0" | "subscribe@h1" => {
              let p = Probe::new();
              probes.push(p.clone());
              subs.push(Some(h[arg].clone().actual_subscribe(p)));
              live.push(open);
              expect.push(vec![Note::N(value.clone())]);
            }
            "unsubscribe" => {
              subs[arg].take().unwrap().unsubscribe();
              live[arg] = false;
            }
            "next(0)@h0" | "next(1)@h1" => {
              let v = V::I(arg as i64);
              h[arg].next(v.clone());
              emit(v, &mut value, &mut expect, &live);
            }
            "next_by(+1)@h0" | "next_by(+1)@h1" => {
              h[arg].next_by(|v| V::I(v.num() + 1));
              let v = V::I(value.num() + 1);
              emit(v, &mut value, &mut expect, &live);
            }
            "reclone h1" => {
              h[1] = h[0].clone();
            }
            "complete@h1" | "error@h0" => {
              let note = if act == "error@h0" { Note::Err(E::E0) } else { Note::C };
              if act == "error@h0" {
                h[0].clone().error(E::E0);
              } else {
                h[1].clone().complete();
              }
              if open {
                open = false;
                for (k, l) in live.iter_mut().enumerate() {
                  if *l {
                    expect[k].push(note.clone());
                    *l = false;
                  }
                }
              }
            }
            "unsubscribe-subject" => {
              h[1].clone().unsubscribe();
              if open {
                open = false;
                for l in live.iter_mut() {
                  *l = false;
                }
              }
            }
            _ => unreachable!(),
          }
          obs.checks += 1;
          for (k, p) in probes.iter().enumerate() {
            let got = p.notes();
            if got != expect[k] {
              obs.fail(
                format!("c12:{}:delivery", $label),
                format!(
                  "after [{}]: subscriber {k} expected [{}] got [{}]",
                  hist.join(" "),
                  fmt_notes(&expect[k]),
                  fmt_notes(&got)
                ),
              );
            }
          }
          for (item, pk) in peeks.borrow().iter() {
            if item != pk {
              obs.fail(
                format!("c12:{}:peek-inside-callback", $label),
                format!("after [{}]: while {item:?} was being delivered peek() answered {pk:?}", hist.join(" ")),
              );
            }
          }
          {
            // a subscriber that joined from inside the delivery of item x gets x as
            // its current value, then exactly the later items
            let ns = nested.borrow();
            while nested_seen < ns.len() {
              // it joins the model as a live subscriber from now on
              probes.push(ns[nested_seen].0.clone());
              subs.push(None);
              live.push(open);
              expect.push(vec![Note::N(ns[nested_seen].1.clone())]);
              nested_seen += 1;
            }
          }
          for (k, p) in probes.iter().enumerate() {
            let got = p.notes();
            if got != expect[k] && subs[k].is_none() && k >= expect.len() - nested_seen.min(expect.len()) {
              obs.fail(
                format!("c12:{}:joined-inside-callback", $label),
                format!(
                  "after [{}]: subscriber {k} (joined inside a callback) expected [{}] got [{}]",
                  hist.join(" "),
                  fmt_notes(&expect[k]),
                  fmt_notes(&got)
                ),
              );
            }
          }
          // it is a subject: every clone reports itself finished / closed exactly
          // after a terminal or unsubscribe() through any clone
          for (i, hh) in h.iter().enumerate() {
            if hh.is_finished() == open || hh.is_closed() == open {
              obs.fail(
                format!("c12:{}:api-finished", $label),
                format!(
                  "after [{}]: the subject is {}, h{i}.is_finished()={} is_closed()={}",
                  hist.join(" "),
                  if open { "open" } else { "terminated / unsubscribed" },
                  hh.is_finished(),
                  hh.is_closed()
                ),
              );
            }
          }
          // ... and counts its attached subscribers
          let attached = live.iter().filter(|l| **l).count();
          for (i, hh) in h.iter().enumerate() {
            if open && attached > 0 && (hh.is_empty() || hh.len() < attached) {
              obs.fail(
                format!("c12:{}:api-empty", $label),
                format!("after [{}]: {attached} subscribers are attached, h{i}.is_empty()={} len()={}", hist.join(" "), hh.is_empty(), hh.len()),
              );
            }
            if !open && (!hh.is_empty() || hh.len() != 0) {
              obs.fail(
                format!("c12:{}:api-empty", $label),
                format!("after [{}]: the subject is terminated / unsubscribed, h{i}.is_empty()={} len()={}", hist.join(" "), hh.is_empty(), hh.len()),
              );
            }
          }
          for (i, hh) in h.iter().enumerate() {
            let pk = hh.peek();
            if pk != value {
              obs.fail(
                format!("c12:{}:peek", $label),
                format!("after [{}]: h{i}.peek()={pk:?} but the most recent value is {value:?}", hist.join(" ")),
              );
            }
          }
          if !obs.viol.is_empty() {
            break;
          }
        }
        let mut d = 0;
        for p in &probes {
          d += p.len();
          obs.note_outcome(&p.notes());
        }
        obs.note_outcome(&value);
        obs.delivered = d as u64;
        obs.log(|| {
          probes
            .iter()
            .enumerate()
            .map(|(k, p)| format!("sub{k}: [{}]", fmt_notes(&p.notes())))
            .collect::<Vec<_>>()
            .join("; ")
        });
      })
      .panics_violate()
      .sig(format!("BehaviorSubject<{}>", $label))
    }
  };
}

beh_job!(job_local, Subject<'static, V, E>, "Subject");
beh_job!(job_threads, SubjectThreads<V, E>, "SubjectThreads");

pub fn plan(tier: Tier) -> Plan {
  let len = match tier {
    Tier::Quick => 6,
    Tier::Thorough => 7,
  };
  let mut jobs = vec![];
  // first menu: 4 subscribe entries + 8 others
  for first in 0..12 {
    jobs.push(job_local(len).root(vec![first]));
    jobs.push(job_threads(len).root(vec![first]));
  }
  Plan {
    jobs,
    finish: Finish {
      prop: "C12".into(),
      tier: tier_name(tier),
      engine: "E1 opseq".into(),
      rule: "every operation sequence up to the length bound over {subscribe via either handle, unsubscribe(k), next(0)@h0, next(1)@h1, next_by(+1) via either handle, re-clone, complete, error, unsubscribe-subject} with up to 3 subscribers on BehaviorSubject over Subject and over SubjectThreads; after every operation every probe trace must be [value current at subscription, then exactly the later items, terminal] and peek() of every handle must be the most recent value, is_finished() / is_closed() of every handle true exactly after a terminal or unsubscribe(); non-trivial = a probe received something".into(),
      bounds: json!({"ops_len": len, "subscribers": MAX_SUBS, "handles": 2}),
      assumptions: vec![],
    },
  }
}
