//! C04 — multi-input combinators follow the interleaving of their inputs.
use super::{tier_name, Plan, Tier};
use crate::ast::*;
use crate::drive::*;
use crate::model::{self, Ev};
use crate::report::{Finish, Job, Obs};
use crate::val::*;
use serde_json::json;

fn form_name(f: Form) -> &'static str {
  if f == Form::Local {
    "local"
  } else {
    "threads"
  }
}

/// value alphabets differ per port so that the origin of every output item is
/// visible: port 0 emits 0/1, port 1 emits 5/6
fn port_event(port: usize, k: usize) -> Note {
  match alpha4(k) {
    Note::N(v) => Note::N(V::I(v.num() + 5 * port as i64)),
    o => o,
  }
}

fn compare(obs: &mut Obs, op: Op2, form: Form, pipe: &Pipe, tl: &[Ev], r: &Run) {
  obs.checks += 1;
  let got_notes = r.probe.notes();
  let got = Seq::from_notes(&got_notes);
  let fmt_tl = || tl.iter().map(|(p, n)| format!("{}{n:?}", if *p == 0 { 'a' } else { 'b' })).collect::<Vec<_>>().join(" ");
  if got.notes() != got_notes {
    obs.fail(
      format!("c04:{}:{}:after-terminal", op.name(), form_name(form)),
      format!("{} on [{}]: delivered after terminal: [{}]", pipe.show(), fmt_tl(), fmt_notes(&got_notes)),
    );
    return;
  }
  match model::op2(op, tl) {
    None => obs.unspecified += 1,
    Some(exp) => {
      if !model::exp2_matches(&exp, &got) {
        obs.fail(
          format!("c04:{}:{}", op.name(), form_name(form)),
          format!(
            "{} on [{}]: expected items {:?} terminal {:?}{} got [{}]",
            pipe.show(),
            fmt_tl(),
            exp.items,
            exp.t,
            if exp.t.is_none() { " (completion relaxed)" } else { "" },
            fmt_notes(&got_notes)
          ),
        );
      }
    }
  }
}

fn timeline_job(op: Op2, form: Form, len: usize) -> Job {
  let pipe = Pipe::hot(0).o2(op, Pipe::hot(1));
  Job::new(format!("{} L{len} {}", form_name(form), pipe.show()), move |ch, obs| {
    let mut r = Run::start(&pipe, form);
    let mut tl: Vec<Ev> = vec![];
    compare(obs, op, form, &pipe, &tl, &r);
    for _ in 0..len {
      let k = ch.choose(2 * ALPHA4);
      let (port, ev) = (k / ALPHA4, port_event(k / ALPHA4, k % ALPHA4));
      ch.label(|| format!("in{port} <- {ev:?}"));
      r.emit(port, &ev);
      tl.push((port, ev));
      compare(obs, op, form, &pipe, &tl, &r);
      if !obs.viol.is_empty() {
        break;
      }
    }
    obs.delivered = r.probe.len() as u64;
    obs.note_outcome(&r.probe.notes());
    obs.log(|| format!("probe: [{}]", fmt_notes(&r.probe.notes())));
  })
}

/// one side is a cold synchronous script (chosen by the explorer), the other
/// side is hot; the cold side's events precede every hot event in the timeline
fn cold_side_job(op: Op2, form: Form, cold_port: usize, script_len: usize, len: usize) -> Job {
  let name = format!(
    "{} {}(cold on port {cold_port}, script<={script_len}) L{len}",
    form_name(form),
    op.name()
  );
  Job::new(name, move |ch, obs| {
    let mut script: Vec<NoteSpec> = vec![];
    let mut tl: Vec<Ev> = vec![];
    for _ in 0..script_len {
      let k = ch.choose(ALPHA4 + 1);
      if k == ALPHA4 {
        break;
      }
      let ev = port_event(cold_port, k);
      let ns = match &ev {
        Note::N(v) => NoteSpec::N(v.num()),
        Note::C => NoteSpec::C,
        Note::Err(e) => NoteSpec::Err(*e),
      };
      let term = ev.is_terminal();
      script.push(ns);
      tl.push((cold_port, ev));
      if term {
        break;
      }
    }
    ch.label(|| format!("cold script {script:?}"));
    let cold = Pipe::S(Src::Create(script));
    let pipe = if cold_port == 0 {
      cold.o2(op, Pipe::hot(0))
    } else {
      Pipe::hot(0).o2(op, cold)
    };
    let hot_port = 1 - cold_port;
    let mut r = Run::start(&pipe, form);
    compare(obs, op, form, &pipe, &tl, &r);
    for _ in 0..len {
      let ev = port_event(hot_port, ch.choose(ALPHA4));
      ch.label(|| format!("hot(port {hot_port}) <- {ev:?}"));
      r.emit(0, &ev);
      tl.push((hot_port, ev));
      compare(obs, op, form, &pipe, &tl, &r);
      if !obs.viol.is_empty() {
        break;
      }
    }
    obs.delivered = r.probe.len() as u64;
    obs.note_outcome(&r.probe.notes());
    obs.log(|| format!("{}: [{}]", pipe.show(), fmt_notes(&r.probe.notes())));
  })
}

/// both inputs cold synchronous scripts: what arrives when is then decided by the
/// order in which the operator subscribes its inputs: the secondary first
/// where it has to be in place before the primary runs (with_latest_from latches
/// its value, skip_until opens its gate), the primary first for the others. This
/// order is taken from the unchanged tree; swapping it changes what a user of
/// two cold inputs receives (`from_iter(1..=3).with_latest_from(of(10))`).
fn both_cold_job(op: Op2, form: Form, slen: usize) -> Job {
  Job::new(format!("{} {}(both inputs cold, scripts<={slen})", form_name(form), op.name()), move |ch, obs| {
    let mut scripts: [Vec<NoteSpec>; 2] = [vec![], vec![]];
    let mut tls: [Vec<Ev>; 2] = [vec![], vec![]];
    for port in 0..2 {
      for _ in 0..slen {
        let k = ch.choose(ALPHA4 + 1);
        if k == ALPHA4 {
          break;
        }
        let ev = port_event(port, k);
        let ns = match &ev {
          Note::N(v) => NoteSpec::N(v.num()),
          Note::C => NoteSpec::C,
          Note::Err(e) => NoteSpec::Err(*e),
        };
        let term = ev.is_terminal();
        scripts[port].push(ns);
        tls[port].push((port, ev));
        if term {
          break;
        }
      }
    }
    ch.label(|| format!("scripts {:?} / {:?}", scripts[0], scripts[1]));
    let secondary_first = matches!(op, Op2::WithLatestFrom | Op2::SkipUntil);
    let tl: Vec<Ev> = if secondary_first {
      tls[1].iter().chain(tls[0].iter()).cloned().collect()
    } else {
      tls[0].iter().chain(tls[1].iter()).cloned().collect()
    };
    let pipe = Pipe::S(Src::Create(scripts[0].clone())).o2(op, Pipe::S(Src::Create(scripts[1].clone())));
    let r = Run::start(&pipe, form);
    compare(obs, op, form, &pipe, &tl, &r);
    obs.delivered = r.probe.len() as u64;
    obs.note_outcome(&r.probe.notes());
    obs.log(|| format!("{}: [{}]", pipe.show(), fmt_notes(&r.probe.notes())));
  })
}

/// both inputs hot `create` sources, the output observed by a subscriber that
/// reports finished after `k` notifications: the operator may stop early, but
/// the terminal its definition prescribes must still be handed on
fn sated_timeline_job(op: Op2, form: Form, k: usize, len: usize) -> Job {
  use rxrust::prelude::*;
  let pipe = Pipe::S(Src::Raw(0)).o2(op, Pipe::S(Src::Raw(1)));
  Job::new(format!("sated-after-{k} {} L{len} {}", form_name(form), pipe.show()), move |ch, obs| {
    let mut r = Run::prepare(2, form);
    let o = Sated { probe: r.probe.clone(), k };
    match form {
      Form::Local => r.sub = Sub::L(build_local(&pipe, &r.cx).actual_subscribe(o)),
      Form::Threads => r.sub = Sub::T(build_threads(&pipe, &r.cx).actual_subscribe(o)),
    }
    let mut tl: Vec<Ev> = vec![];
    for _ in 0..len {
      let c = ch.choose(2 * ALPHA4);
      let (port, ev) = (c / ALPHA4, port_event(c / ALPHA4, c % ALPHA4));
      ch.label(|| format!("in{port} <- {ev:?}"));
      r.emit(port, &ev);
      tl.push((port, ev));
      obs.checks += 1;
      let got = r.probe.seq();
      match model::op2(op, &tl) {
        None => obs.unspecified += 1,
        Some(exp) => {
          let prefix = got.items.len() <= exp.items.len() && exp.items[..got.items.len()] == got.items[..];
          let enough = got.items.len() >= k.min(exp.items.len()) || (exp.t.is_none() && exp.may_complete && got.t == T::C);
          let term = match exp.t {
            Some(t) => got.t == t,
            None => match got.t {
              T::Open => !exp.must_complete,
              T::C => exp.may_complete,
              T::Err(_) => false,
            },
          };
          if !(prefix && enough && term && r.probe.grammar_ok()) {
            obs.fail(
              format!("c04:{}:{}:to-finished-observer", op.name(), form_name(form)),
              format!(
                "{} on [{}] observed by a subscriber that reports finished after {k} notifications: definition gives items {:?} terminal {:?}, delivered [{}]",
                pipe.show(),
                tl.iter().map(|(p, n)| format!("{}{n:?}", if *p == 0 { 'a' } else { 'b' })).collect::<Vec<_>>().join(" "),
                exp.items,
                exp.t,
                fmt_notes(&r.probe.notes())
              ),
            );
            break;
          }
        }
      }
    }
    obs.delivered = r.probe.len() as u64;
    obs.note_outcome(&r.probe.notes());
    obs.log(|| format!("probe: [{}]", fmt_notes(&r.probe.notes())));
  })
}

pub fn plan(tier: Tier) -> Plan {
  let (len, slen, hlen) = match tier {
    Tier::Quick => (6, 3, 4),
    Tier::Thorough => (7, 4, 5),
  };
  let mut jobs = vec![];
  for form in [Form::Local, Form::Threads] {
    for op in Op2::ALL {
      jobs.push(timeline_job(op, form, len));
      for cold_port in [0, 1] {
        jobs.push(cold_side_job(op, form, cold_port, slen, hlen));
      }
      for k in 0..3 {
        jobs.push(sated_timeline_job(op, form, k, len - 1));
      }
      jobs.push(both_cold_job(op, form, slen));
    }
  }
  Plan {
    jobs,
    finish: Finish {
      prop: "C04".into(),
      tier: tier_name(tier),
      engine: "E1 opseq".into(),
      rule: "for each of merge, zip, combine_latest, with_latest_from, take_until, skip_until, sample, buffer(notifier) in local and _threads form: every merged timeline up to the length bound over {next, next', complete, error} per input (events after a terminal included), and every cold synchronous script on either side followed by every hot history on the other; the probe trace is compared with the operator's reference function after every event; the same timelines on hot create() inputs observed by a subscriber that reports itself finished after 0-2 notifications (a prefix of the prescribed items, then the prescribed terminal); non-trivial = at least one notification reached the probe".into(),
      bounds: json!({"timeline_len": len, "cold_script_len": slen, "hot_len_after_cold": hlen, "forms": 2, "operators": 8}),
      assumptions: vec![
        "completion time of zip/combine_latest is only constrained (not before one input completed, present once both completed)".into(),
        "skip_until / buffer whose notifier terminates before its first item: not asserted (unspecified)".into(),
      ],
    },
  }
}
