//! C02 — after unsubscribe() returns the subscriber is never called again
//! (single-threaded and virtual-time part; racing threads are E2's part).
use super::c08::{env_step, Act};
use super::{tier_name, Plan, Tier};
use crate::ast::*;
use crate::catalogue::*;
use crate::drive::*;
use crate::report::{Finish, Job};
use crate::val::*;
use crate::world;
use serde_json::json;

fn form_name(f: Form) -> &'static str {
  if f == Form::Local {
    "local"
  } else {
    "threads"
  }
}

/// operators that schedule work on the subscriber's behalf (the suspects when
/// something arrives after unsubscribe)
fn culprits(p: &Pipe) -> String {
  fn walk(p: &Pipe, out: &mut Vec<&'static str>) {
    match p {
      Pipe::S(s) => {
        if matches!(s, Src::Interval(_) | Src::IntervalAt(..) | Src::Timer(..) | Src::TimerAt(..)) {
          out.push(super::c03::src_name(s));
        }
      }
      Pipe::O1(op, i) => {
        walk(i, out);
        if op.uses_time() || matches!(op, Op1::Share | Op1::Flat(..) | Op1::GroupByFlatten(_)) {
          out.push(op.name());
        }
      }
      Pipe::O2(_, a, b) => {
        walk(a, out);
        walk(b, out);
      }
    }
  }
  let mut v = vec![];
  walk(p, &mut v);
  v.sort();
  v.dedup();
  if v.is_empty() {
    super::c01::sig(p)
  } else {
    v.join("+")
  }
}

fn unsub_job(pipe: Pipe, form: Form, len: usize, devs: u32) -> Job {
  unsub_job_mode(pipe, form, len, devs, false)
}

/// `unwinding`: the guard is dropped by a scope that unwinds (a caught panic)
/// instead of by a scope that ends
fn unsub_job_mode(pipe: Pipe, form: Form, len: usize, devs: u32, unwinding: bool) -> Job {
  let n_in = pipe.n_inputs();
  let timed = pipe.uses_time();
  let mode = if unwinding { " (guard dropped while unwinding)" } else { "" };
  Job::new(format!("{} L{len} d<={devs} {}{mode}", form_name(form), pipe.show()), move |ch, obs| {
    let mut r = Run::prepare(n_in, form);
    r.subscribe(&pipe);
    r.world.settle();
    let mut hist: Vec<String> = vec![];
    let mut cut: Option<usize> = None; // probe length when unsubscribe() returned
    for step in 0..len + 6 {
      world::bump_step();
      let closing = step >= len;
      let n_src = n_in * ALPHA4;
      let n_extra = n_src + if cut.is_none() { 2 } else { 0 };
      let act = if closing {
        if cut.is_none() {
          // the cut point "never" is pointless for this property
          break;
        }
        if r.world.ready_len() > 0 {
          Act::Run(0)
        } else if timed && world::live_timers() > 0 {
          Act::Advance(1)
        } else {
          break;
        }
      } else {
        env_step(&r.world, ch, if timed { &[1] } else { &[] }, n_extra)
      };
      match act {
        Act::Run(k) => {
          ch.label(|| format!("run({k})"));
          hist.push(format!("run({k})"));
          r.world.run_ready(k);
        }
        Act::Advance(n) => {
          ch.label(|| format!("advance({n})"));
          hist.push(format!("advance({n})"));
          r.world.advance(n);
        }
        Act::Extra(e) if e < n_src => {
          let (i, ev) = (e / ALPHA4, alpha4(e % ALPHA4));
          ch.label(|| format!("in{i} <- {ev:?}"));
          hist.push(format!("in{i}<-{ev:?}"));
          r.emit(i, &ev);
          r.world.settle();
        }
        Act::Extra(e) => {
          let guard = e == n_src + 1;
          ch.label(|| if guard { "drop guard".into() } else { "unsubscribe".into() });
          hist.push(if guard { "drop-guard".into() } else { "unsubscribe".into() });
          if guard && unwinding {
            r.sub.drop_guard_unwinding();
          } else if guard {
            r.sub.drop_guard();
          } else {
            r.sub.unsubscribe();
          }
          cut = Some(r.probe.len());
          r.world.settle();
        }
      }
      obs.checks += 1;
      if let Some(n) = cut {
        if r.probe.len() > n {
          let all = r.probe.notes();
          obs.fail(
            format!("c02:after-unsubscribe:{}:{}", form_name(form), culprits(&pipe)),
            format!(
              "{} after [{}]: {} notifications had been delivered when unsubscribe returned, then came [{}]",
              pipe.show(),
              hist.join(" "),
              n,
              fmt_notes(&all[n..])
            ),
          );
          break;
        }
      }
    }
    obs.delivered = r.probe.len() as u64;
    obs.note_outcome(&r.probe.notes());
    obs.note_outcome(&cut);
    obs.log(|| format!("probe: [{}] cut at {cut:?}", fmt_notes(&r.probe.notes())));
  })
  .devs(devs)
}

pub fn plan(tier: Tier) -> Plan {
  let (len, len_t, devs) = match tier {
    Tier::Quick => (3, 4, 1),
    Tier::Thorough => (4, 6, 2),
  };
  let mut jobs = vec![];
  let mut n_pipes = 0u64;
  let topts = time_ops(true);
  let sync: Vec<Op1> = {
    let mut v = list_ops(false);
    v.extend(sync_extra_ops());
    v
  };
  for form in [Form::Local, Form::Threads] {
    // every scheduler-using stage alone, longer histories
    for t in &topts {
      n_pipes += 1;
      jobs.push(unsub_job(Pipe::hot(0).o1(t.clone()), form, len_t + 1, devs));
    }
    // the stages that keep one task handle per notification in flight: histories
    // long enough for "two in flight, one run, a third arrives, unsubscribe, the rest runs"
    for t in [Op1::Delay(1), Op1::ObserveOn] {
      n_pipes += 1;
      jobs.push(unsub_job(Pipe::hot(0).o1(t), form, 6, 2));
    }
    // a `create` producer that keeps its subscriber and emits later: the handle
    // returned by subscribe is what stops it
    n_pipes += 1;
    jobs.push(unsub_job(Pipe::S(Src::Raw(0)), form, len + 1, 0));
    for o in &sync {
      n_pipes += 1;
      jobs.push(unsub_job(Pipe::S(Src::Raw(0)).o1(o.clone()), form, len, 0));
    }
    // a guard is a guard also when its scope unwinds
    for p in [Pipe::hot(0), Pipe::hot(0).o1(Op1::Delay(1)), Pipe::S(Src::Interval(1)), Pipe::hot(0).o2(Op2::Merge, Pipe::hot(1))] {
      n_pipes += 1;
      jobs.push(unsub_job_mode(p, form, 4, 1, true));
    }
    // scheduler-using stage combined with every other catalogue entry
    for t in &time_ops(false) {
      for o in sync.iter().chain(time_ops(false).iter()) {
        n_pipes += 2;
        jobs.push(unsub_job(Pipe::hot(0).o1(t.clone()).o1(o.clone()), form, len_t, devs));
        jobs.push(unsub_job(Pipe::hot(0).o1(o.clone()).o1(t.clone()), form, len_t, devs));
      }
    }
    // purely synchronous entries
    for o in &super::c01::all_ops(true) {
      if !o.uses_time() {
        n_pipes += 1;
        jobs.push(unsub_job(Pipe::hot(0).o1(o.clone()), form, len + 1, 0));
      }
    }
    // two-input operators with scheduler stages on either side / after
    for p in super::c01::two_input_pipes(&time_ops(false)) {
      if p.n_inputs() >= 3 {
        continue;
      }
      n_pipes += 1;
      jobs.push(unsub_job(p, form, len, devs));
    }
    for p in super::c01::flat_pipes() {
      n_pipes += 1;
      // three hot inputs (two different hot inners): a queued inner that is
      // started late and then cut needs five steps
      let l = if p.n_inputs() >= 3 { len + 2 } else { len + 1 };
      jobs.push(unsub_job(p.clone(), form, l, 0));
      n_pipes += 1;
      jobs.push(unsub_job(p.o1(Op1::Delay(1)), form, len, devs));
    }
    // timer-driven sources under every stage
    for s in [Src::Interval(1), Src::Timer(3, 1), Src::IntervalAt(1, 1), Src::TimerAt(3, 2), Src::Interval(2)] {
      n_pipes += 1;
      jobs.push(unsub_job(Pipe::S(s.clone()), form, len_t + 2, devs));
      for o in sync.iter().chain(time_ops(false).iter()) {
        n_pipes += 1;
        jobs.push(unsub_job(Pipe::S(s.clone()).o1(o.clone()), form, len_t, devs));
      }
    }
    // sources that hand their work to the scheduler (the handle returned by
    // subscribe is what stops the task), and a deferred source whose factory
    // builds a hot, timer-driven or task-driven observable: the subscription of
    // what the factory returned is the subscription of the deferred observable
    for s in [
      Src::FromFuture(1),
      Src::FromFutureResult(Ok(1)),
      Src::FromFutureResult(Err(E::E1)),
      Src::StreamCount(2),
      Src::StreamResultCount(2),
      Src::Defer(Box::new(Src::Hot(0))),
      Src::Defer(Box::new(Src::Raw(0))),
      Src::Defer(Box::new(Src::Interval(1))),
      Src::Defer(Box::new(Src::FromFuture(1))),
    ] {
      n_pipes += 1;
      jobs.push(unsub_job(Pipe::S(s.clone()), form, len_t, devs));
      for o in [Op1::Map, Op1::Delay(1), Op1::Share] {
        n_pipes += 1;
        jobs.push(unsub_job(Pipe::S(s.clone()).o1(o), form, len, devs));
      }
    }
    // flattening over timer-driven inners is covered by Flat + interval below
    for t in &time_ops(false) {
      n_pipes += 1;
      jobs.push(unsub_job(
        Pipe::hot(0).o1(Op1::Share).o1(t.clone()),
        form,
        len_t,
        devs,
      ));
    }
  }
  Plan {
    jobs,
    finish: Finish {
      prop: "C02".into(),
      tier: tier_name(tier),
      engine: "E1 opseq".into(),
      rule: "pipelines: every scheduler-using catalogue stage alone, combined (before and after) with every other catalogue entry, on either side of / after every two-input operator, over flattening, share, timer-driven sources, from_future / from_stream (and their _result twins) and defer over a hot, raw, interval or from_future source, plus every synchronous entry; local and _threads forms. Every sequence up to the length bound over {input events, advance one tick, run the i-th ready task (another than the first costs a deviation, as does moving on while a task is ready), unsubscribe / drop the guard (once, at every position; for a few pipelines also a guard dropped by an unwinding scope)}; after the horizon everything that is still scheduled is run out. Oracle: the probe never grows after unsubscribe() returned; non-trivial = something was delivered".into(),
      bounds: json!({"len_sync": len, "len_timed": len_t, "deviations": devs, "pipelines": n_pipes}),
      assumptions: vec!["task bodies are atomic; a callback racing with unsubscribe on another thread is E2's part".into()],
    },
  }
}
