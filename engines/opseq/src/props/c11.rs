//! C11 — publish/connect and share subscribe the source once and multicast.
use super::{tier_name, Plan, Tier};
use crate::probe::Probe;
use crate::report::{Finish, Job};
use crate::val::*;
use crate::world;
use rxrust::prelude::*;
use serde_json::json;
use std::convert::Infallible;
use std::sync::atomic::{AtomicUsize, Ordering};
use std::sync::Arc;

const MAX_SUBS: usize = 3;

#[derive(Clone, Copy, PartialEq, Eq, Debug)]
enum SrcKind {
  Hot,
  /// cold synchronous source: emits 0, 1 and completes inside subscribe
  Cold,
}

#[derive(Clone, Copy, PartialEq, Eq, Debug)]
enum Stage {
  Tap,
  TapMapScan,
}

fn inf(e: Infallible) -> E {
  match e {}
}

struct Ctr {
  subs: Arc<AtomicUsize>,
  taps: Arc<AtomicUsize>,
}

macro_rules! share_job {
  ($fname:ident, $subj:ty, $share:ident, $label:expr, $boxsub:ident, $box:ident, $merge:ident) => {
    fn $fname(src: SrcKind, stage: Stage, len: usize) -> Job {
      Job::new(format!("{} {src:?} source behind {stage:?} L{len}", $label), move |ch, obs| {
        let _w = world::World::new();
        let c = Ctr { subs: Arc::new(AtomicUsize::new(0)), taps: Arc::new(AtomicUsize::new(0)) };
        let mut hot = <$subj>::default();
        // source: counts its subscriptions
        let (subs, taps, hot2) = (c.subs.clone(), c.taps.clone(), hot.clone());
        let source = observable::defer(move || {
          subs.fetch_add(1, Ordering::SeqCst);
          let b: rxrust::ops::box_it::$box<V, E> = match src {
            SrcKind::Hot => hot2.clone().box_it(),
            SrcKind::Cold => observable::from_iter(vec![V::I(0), V::I(1)]).on_error_map(inf).box_it(),
          };
          b
        })
        .tap(move |_| {
          taps.fetch_add(1, Ordering::SeqCst);
        });
        let shared: rxrust::ops::box_it::$box<V, E> = match stage {
          Stage::Tap => source.box_it(),
          Stage::TapMapScan => source
            .map(|v: V| V::I(v.num() + 10))
            .scan(|a: V, v: V| a + v)
            .box_it(),
        };
        let shared = shared.$share();
        let xf = |items: &[V]| -> Vec<V> {
          match stage {
            Stage::Tap => items.to_vec(),
            Stage::TapMapScan => {
              let mut acc = 0;
              items
                .iter()
                .map(|v| {
                  acc += v.num() + 10;
                  V::I(acc)
                })
                .collect()
            }
          }
        };
        let mut probes: Vec<Probe> = vec![];
        let mut handles: Vec<Option<$boxsub>> = vec![];
        // model
        let mut emitted: Vec<V> = vec![]; // everything the (connected) source has emitted
        let mut src_term: Option<Note> = None;
        let mut connected = false;
        let mut all_left = false; // ref count went back to zero
        let mut joined_at: Vec<usize> = vec![]; // emitted.len() at subscription
        let mut left_at: Vec<Option<usize>> = vec![];
        let mut exact: Vec<bool> = vec![]; // joined while the share was active
        let mut got_term: Vec<bool> = vec![];
        let mut frozen: Option<(usize, usize)> = None; // counters when the last one left
        let mut hist: Vec<String> = vec![];
        for _ in 0..len {
          let mut menu: Vec<(&str, usize)> = vec![];
          if probes.len() < MAX_SUBS {
            menu.push(("subscribe", 0));
            // joins through `from_iter([100,101]).merge(shared).take(2)`: by the
            // time merge subscribes the shared observable its observer has finished
            menu.push(("subscribe-already-finished", 0));
          }
          for k in 0..handles.len() {
            if handles[k].is_some() {
              menu.push(("unsubscribe", k));
              menu.push(("drop-guard", k));
            }
          }
          if src == SrcKind::Hot {
            menu.extend([("src next(0)", 0), ("src next(1)", 1), ("src complete", 0), ("src error", 0)]);
          }
          if menu.is_empty() {
            break;
          }
          let (act, arg) = menu[ch.choose(menu.len())];
          ch.label(|| format!("{act}({arg})"));
          hist.push(format!("{act}({arg})"));
          world::bump_step();
          match act {
            "subscribe" => {
              let p = Probe::new();
              probes.push(p.clone());
              joined_at.push(emitted.len());
              left_at.push(None);
              exact.push(!all_left && src_term.is_none());
              got_term.push(false);
              let first = !connected;
              handles.push(Some($boxsub::new(shared.clone().actual_subscribe(p))));
              if first {
                connected = true;
                if src == SrcKind::Cold {
                  emitted.extend([V::I(0), V::I(1)]);
                  src_term = Some(Note::C);
                  got_term[probes.len() - 1] = true;
                }
              }
            }
            "subscribe-already-finished" => {
              let p = Probe::new();
              probes.push(p.clone());
              joined_at.push(emitted.len());
              left_at.push(None);
              // what it receives from the share is not asserted (it asked for two
              // items and has them); it counts as a subscriber of the share
              exact.push(false);
              got_term.push(false);
              let first = !connected;
              let joiner = observable::from_iter(vec![V::I(100), V::I(101)])
                .on_error_map(inf)
                .$merge(shared.clone())
                .take(2);
              handles.push(Some($boxsub::new(joiner.actual_subscribe(p))));
              if first {
                connected = true;
                if src == SrcKind::Cold {
                  emitted.extend([V::I(0), V::I(1)]);
                  src_term = Some(Note::C);
                }
              }
            }
            "unsubscribe" | "drop-guard" => {
              if act == "drop-guard" {
                drop(handles[arg].take().unwrap().unsubscribe_when_dropped());
              } else {
                handles[arg].take().unwrap().unsubscribe();
              }
              left_at[arg] = Some(emitted.len());
              if handles.iter().all(|h| h.is_none()) && src_term.is_none() {
                all_left = true;
                frozen = Some((c.subs.load(Ordering::SeqCst), c.taps.load(Ordering::SeqCst)));
              }
            }
            "src next(0)" | "src next(1)" => {
              hot.next(V::I(arg as i64));
              if connected && src_term.is_none() {
                emitted.push(V::I(arg as i64));
              }
            }
            "src complete" | "src error" => {
              let n = if act == "src error" { Note::Err(E::E0) } else { Note::C };
              if act == "src error" {
                hot.clone().error(E::E0);
              } else {
                hot.clone().complete();
              }
              if connected && src_term.is_none() {
                src_term = Some(n);
                for k in 0..probes.len() {
                  if left_at[k].is_none() {
                    got_term[k] = true;
                  }
                }
              } else if !connected && src_term.is_none() {
                // the hot source ended before anybody connected: later
                // subscribers see nothing (subjects hand out closed subscribers)
                src_term = Some(n);
              }
            }
            _ => unreachable!(),
          }
          obs.checks += 1;
          let ns = c.subs.load(Ordering::SeqCst);
          let nt = c.taps.load(Ordering::SeqCst);
          let want_subs = if connected { 1 } else { 0 };
          if ns != want_subs {
            obs.fail(
              format!("c11:{}:source-subscriptions", $label),
              format!("after [{}]: source subscribed {ns} times, expected {want_subs}", hist.join(" ")),
            );
          }
          if let Some((fs, ft)) = frozen {
            if ns != fs || nt != ft {
              obs.fail(
                format!("c11:{}:driven-after-last-unsubscribe", $label),
                format!(
                  "after [{}]: last subscriber left at (subscriptions {fs}, upstream tap calls {ft}) but now ({ns}, {nt})",
                  hist.join(" ")
                ),
              );
            }
          }
          let all_out = xf(&emitted);
          for k in 0..probes.len() {
            if !exact[k] {
              continue;
            }
            let end = left_at[k].unwrap_or(emitted.len());
            let mut exp: Vec<Note> = all_out[joined_at[k]..end].iter().cloned().map(Note::N).collect();
            if got_term[k] {
              exp.push(src_term.clone().unwrap());
            }
            let got = probes[k].notes();
            if got != exp {
              obs.fail(
                format!("c11:{}:multicast", $label),
                format!(
                  "after [{}]: subscriber {k} expected [{}] got [{}]",
                  hist.join(" "),
                  fmt_notes(&exp),
                  fmt_notes(&got)
                ),
              );
            }
          }
          if !obs.viol.is_empty() {
            break;
          }
        }
        let mut d = 0;
        for p in &probes {
          d += p.len();
          obs.note_outcome(&p.notes());
        }
        obs.note_outcome(&c.taps.load(Ordering::SeqCst));
        obs.delivered = d as u64;
        obs.log(|| {
          format!(
            "source subscriptions {} tap calls {}; {}",
            c.subs.load(Ordering::SeqCst),
            c.taps.load(Ordering::SeqCst),
            probes
              .iter()
              .enumerate()
              .map(|(k, p)| format!("sub{k}: [{}]", fmt_notes(&p.notes())))
              .collect::<Vec<_>>()
              .join("; ")
          )
        });
      })
    }
  };
}

share_job!(share_local, Subject<'static, V, E>, share, "share", BoxSubscription, BoxOp, merge);
share_job!(share_threads, SubjectThreads<V, E>, share_threads, "share_threads", BoxSubscriptionThreads, BoxOpThreads, merge_threads);

/// hot source -> tap -> take(2) -> share: the shared stream completes by itself
/// while the hot source lives on. Whoever leaves last — by unsubscribe() or by
/// dropping a guard, before or after that completion — releases the source.
macro_rules! share_cut_job {
  ($fname:ident, $subj:ty, $share:ident, $label:expr, $boxsub:ident, $box:ident, $merge:ident) => {
    fn $fname(len: usize, fail_at_connect: bool) -> Job {
      let what = if fail_at_connect { "tap.merge(throw): the shared stream fails during connect" } else { "tap.take(2)" };
      Job::new(format!("{} hot source behind {what} L{len}", $label), move |ch, obs| {
        let _w = world::World::new();
        let taps = Arc::new(AtomicUsize::new(0));
        let mut hot = <$subj>::default();
        let t2 = taps.clone();
        let tapped = hot.clone().tap(move |_| {
          t2.fetch_add(1, Ordering::SeqCst);
        });
        // either way the shared stream ends by itself while the hot source (and
        // the share's registration with it) lives on
        let shared = if fail_at_connect {
          let b: rxrust::ops::box_it::$box<V, E> = tapped.$merge(observable::throw(E::E1).map(V::from)).box_it();
          b.$share()
        } else {
          let b: rxrust::ops::box_it::$box<V, E> = tapped.take(2).box_it();
          b.$share()
        };
        let mut probes: Vec<Probe> = vec![];
        let mut handles: Vec<Option<$boxsub>> = vec![];
        let mut frozen: Option<usize> = None;
        let mut hist: Vec<String> = vec![];
        for _ in 0..len {
          let mut menu: Vec<(&str, usize)> = vec![];
          if probes.len() < 2 && frozen.is_none() {
            menu.push(("subscribe", 0));
          }
          for k in 0..handles.len() {
            if handles[k].is_some() {
              menu.push(("unsubscribe", k));
              menu.push(("drop-guard", k));
            }
          }
          menu.extend([("src next", 0), ("src complete", 0)]);
          let (act, arg) = menu[ch.choose(menu.len())];
          ch.label(|| format!("{act}({arg})"));
          hist.push(format!("{act}({arg})"));
          world::bump_step();
          match act {
            "subscribe" => {
              let p = Probe::new();
              probes.push(p.clone());
              handles.push(Some($boxsub::new(shared.clone().actual_subscribe(p))));
            }
            "unsubscribe" | "drop-guard" => {
              let h = handles[arg].take().unwrap();
              if act == "drop-guard" {
                drop(h.unsubscribe_when_dropped());
              } else {
                h.unsubscribe();
              }
              if handles.iter().all(|h| h.is_none()) {
                frozen = Some(taps.load(Ordering::SeqCst));
              }
            }
            "src next" => hot.next(V::I(0)),
            _ => hot.clone().complete(),
          }
          obs.checks += 1;
          if let Some(f) = frozen {
            let now = taps.load(Ordering::SeqCst);
            if now != f {
              obs.fail(
                format!("c11:{}:driven-after-last-unsubscribe", $label),
                format!("after [{}]: every subscriber has left at {f} upstream tap calls, now {now}", hist.join(" ")),
              );
              break;
            }
          }
          for (k, p) in probes.iter().enumerate() {
            let n = p.notes();
            let items = n.iter().filter(|x| !x.is_terminal()).count();
            if items > 2 || !p.grammar_ok() || (fail_at_connect && items > 0) {
              obs.fail(
                format!("c11:{}:multicast", $label),
                format!("after [{}]: subscriber {k} of take(2).share saw [{}]", hist.join(" "), fmt_notes(&n)),
              );
            }
          }
          if !obs.viol.is_empty() {
            break;
          }
        }
        obs.delivered = probes.iter().map(|p| p.len() as u64).sum::<u64>() + taps.load(Ordering::SeqCst) as u64;
        for p in &probes {
          obs.note_outcome(&p.notes());
        }
        obs.note_outcome(&taps.load(Ordering::SeqCst));
      })
    }
  };
}
share_cut_job!(share_cut_local, Subject<'static, V, E>, share, "share", BoxSubscription, BoxOp, merge);
share_cut_job!(share_cut_threads, SubjectThreads<V, E>, share_threads, "share_threads", BoxSubscriptionThreads, BoxOpThreads, merge_threads);

/// publish + fork + connect
fn publish_job(src: SrcKind, len: usize) -> Job {
  Job::new(format!("publish/connect {src:?} source L{len}"), move |ch, obs| {
    let _w = world::World::new();
    let subs = Arc::new(AtomicUsize::new(0));
    let mut hot = Subject::<'static, V, E>::default();
    let (subs2, hot2) = (subs.clone(), hot.clone());
    let source = observable::defer(move || {
      subs2.fetch_add(1, Ordering::SeqCst);
      let b: rxrust::ops::box_it::BoxOp<'static, V, E> = match src {
        SrcKind::Hot => hot2.clone().box_it(),
        SrcKind::Cold => observable::from_iter(vec![V::I(0), V::I(1)]).on_error_map(inf).box_it(),
      };
      b
    });
    let mut connectable = Some(source.publish::<Subject<'static, V, E>>());
    let fork = connectable.as_ref().unwrap().fork();
    let mut probes: Vec<Probe> = vec![];
    let mut handles = vec![];
    let mut emitted: Vec<V> = vec![];
    let mut term: Option<Note> = None;
    let mut connected = false;
    let mut joined_at: Vec<usize> = vec![];
    let mut left_at: Vec<Option<usize>> = vec![];
    let mut joined_open: Vec<bool> = vec![];
    let mut got_term: Vec<bool> = vec![];
    let mut hist: Vec<String> = vec![];
    let mut _conn = None;
    for _ in 0..len {
      let mut menu: Vec<(&str, usize)> = vec![];
      if probes.len() < MAX_SUBS {
        menu.push(("subscribe", 0));
      }
      for k in 0..handles.len() {
        if matches!(handles[k], Some(_)) {
          menu.push(("unsubscribe", k));
        }
      }
      if connectable.is_some() {
        menu.push(("connect", 0));
      }
      if src == SrcKind::Hot {
        menu.extend([("src next(0)", 0), ("src next(1)", 1), ("src complete", 0), ("src error", 0)]);
      }
      if menu.is_empty() {
        break;
      }
      let (act, arg) = menu[ch.choose(menu.len())];
      ch.label(|| format!("{act}({arg})"));
      hist.push(format!("{act}({arg})"));
      world::bump_step();
      match act {
        "subscribe" => {
          let p = Probe::new();
          probes.push(p.clone());
          joined_at.push(emitted.len());
          left_at.push(None);
          joined_open.push(term.is_none());
          got_term.push(false);
          handles.push(Some(fork.clone().actual_subscribe(p)));
        }
        "unsubscribe" => {
          handles[arg].take().unwrap().unsubscribe();
          left_at[arg] = Some(emitted.len());
        }
        "connect" => {
          let hot_over = src == SrcKind::Hot && term.is_some();
          _conn = Some(connectable.take().unwrap().connect());
          connected = true;
          if src == SrcKind::Cold {
            emitted.extend([V::I(0), V::I(1)]);
            term = Some(Note::C);
            for k in 0..probes.len() {
              if left_at[k].is_none() {
                got_term[k] = true;
              }
            }
          }
          let _ = hot_over;
        }
        "src next(0)" | "src next(1)" => {
          hot.next(V::I(arg as i64));
          if connected && term.is_none() {
            emitted.push(V::I(arg as i64));
          }
        }
        "src complete" | "src error" => {
          let n = if act == "src error" { Note::Err(E::E0) } else { Note::C };
          if act == "src error" {
            hot.clone().error(E::E0);
          } else {
            hot.clone().complete();
          }
          if term.is_none() {
            // a hot source that ends before connect() leaves the published
            // subject open for good
            term = Some(if connected { n } else { Note::N(V::U) });
            if connected {
              for k in 0..probes.len() {
                if left_at[k].is_none() {
                  got_term[k] = true;
                }
              }
            }
          }
        }
        _ => unreachable!(),
      }
      obs.checks += 1;
      let ns = subs.load(Ordering::SeqCst);
      if ns != connected as usize {
        obs.fail(
          "c11:publish:source-subscriptions",
          format!("after [{}]: source subscribed {ns} times, connected={connected}", hist.join(" ")),
        );
      }
      for k in 0..probes.len() {
        let end = left_at[k].unwrap_or(emitted.len());
        let start = joined_at[k].min(end);
        let mut exp: Vec<Note> = emitted[start..end].iter().cloned().map(Note::N).collect();
        if let Some(t) = &term {
          if t.is_terminal() && got_term[k] && joined_open[k] {
            exp.push(t.clone());
          }
        }
        let got = probes[k].notes();
        if got != exp {
          obs.fail(
            "c11:publish:multicast",
            format!(
              "after [{}]: subscriber {k} expected [{}] got [{}]",
              hist.join(" "),
              fmt_notes(&exp),
              fmt_notes(&got)
            ),
          );
        }
      }
      if !obs.viol.is_empty() {
        break;
      }
    }
    let mut d = 0;
    for p in &probes {
      d += p.len();
      obs.note_outcome(&p.notes());
    }
    obs.delivered = d as u64;
    obs.log(|| {
      probes
        .iter()
        .enumerate()
        .map(|(k, p)| format!("sub{k}: [{}]", fmt_notes(&p.notes())))
        .collect::<Vec<_>>()
        .join("; ")
    });
  })
}

/// A source that neither completes nor fails, multicast: the subscribers see
/// exactly what the source delivers — in particular no terminal of the
/// multicast's own making (`never()`'s subscription, `()`, reports closed
/// although the source is not over).
fn open_source_job(which: usize, how: usize) -> Job {
  use crate::ast::{build_local, NoteSpec, Op2, Pipe, Src};
  use crate::drive::{Form, Run};
  let (pipe, want): (Pipe, Vec<Note>) = match which {
    0 => (Pipe::S(Src::Never), vec![]),
    1 => (Pipe::S(Src::Create(vec![NoteSpec::N(0)])), vec![Note::N(V::I(0))]),
    _ => (Pipe::S(Src::Of(1)).o2(Op2::Merge, Pipe::S(Src::Never)), vec![Note::N(V::I(1))]),
  };
  let how_name = ["share", "share, two subscribers", "publish + connect"][how];
  Job::new(format!("{} multicast by {how_name}", pipe.show()), move |_ch, obs| {
    let r = Run::prepare(1, Form::Local);
    let (p1, p2) = (Probe::new(), Probe::new());
    let mut wants = vec![want.clone()];
    match how {
      0 => {
        let _u = build_local(&pipe, &r.cx).share().actual_subscribe(p1.clone());
      }
      1 => {
        let sh = build_local(&pipe, &r.cx).share();
        let _u1 = sh.clone().actual_subscribe(p1.clone());
        let _u2 = sh.actual_subscribe(p2.clone());
        // the second subscriber joins after a cold source has emitted
        wants.push(vec![]);
      }
      _ => {
        let c = build_local(&pipe, &r.cx).publish::<Subject<'static, V, E>>();
        let _u = c.fork().actual_subscribe(p1.clone());
        let _k = c.connect();
      }
    }
    obs.checks += 1;
    for (i, (p, w)) in [&p1, &p2].iter().zip(wants.iter()).enumerate() {
      if &p.notes() != w {
        obs.fail(
          format!("c11:open-source:{}", ["share", "share", "publish"][how]),
          format!(
            "{} multicast by {how_name}: the source delivers [{}] and stays open; subscriber {i} saw [{}]",
            pipe.show(),
            fmt_notes(w),
            fmt_notes(&p.notes())
          ),
        );
      }
    }
    obs.delivered = 1 + p1.len() as u64;
    obs.note_outcome(&p1.notes());
  })
}

pub fn plan(tier: Tier) -> Plan {
  let len = match tier {
    Tier::Quick => 7,
    Tier::Thorough => 9,
  };
  let mut jobs = vec![];
  for src in [SrcKind::Hot, SrcKind::Cold] {
    for stage in [Stage::Tap, Stage::TapMapScan] {
      jobs.push(share_local(src, stage, len));
      jobs.push(share_threads(src, stage, len));
    }
    jobs.push(publish_job(src, len));
  }
  for which in 0..3 {
    for how in 0..3 {
      jobs.push(open_source_job(which, how));
    }
  }
  for fail_at_connect in [false, true] {
    jobs.push(share_cut_local(len + 1, fail_at_connect));
    jobs.push(share_cut_threads(len + 1, fail_at_connect));
  }
  Plan {
    jobs,
    finish: Finish {
      prop: "C11".into(),
      tier: tier_name(tier),
      engine: "E1 opseq".into(),
      rule: "every history up to the length bound over {subscribe (<=3), unsubscribe(k), dropping an unsubscribe_when_dropped guard(k), source next(0)/next(1)/complete/error, connect} for share / share_threads (hot and cold synchronous source, behind tap or tap+map+scan carrying counters) and publish + fork + connect, sources that stay open (never(), a create that emits and keeps its subscriber, of(1).merge(never())) multicast by share and by publish + connect (no terminal of the multicast's own making), and share behind tap.take(2) / tap.merge(throw) over a hot source that outlives the shared stream (every subscriber gone = upstream tap counter frozen); after every step: source subscription counter (0 before connect, exactly 1 after the first join, never 2), every subscriber's trace = items emitted while it was present + the terminal, and after the last subscriber has left neither the upstream tap counter nor the subscription counter moves; non-trivial = a probe received something".into(),
      bounds: json!({"history_len": len, "subscribers": MAX_SUBS}),
      assumptions: vec!["what a subscriber that joins after the reference count went back to zero receives is not asserted".into()],
    },
  }
}
