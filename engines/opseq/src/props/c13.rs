//! C13 — cold pipelines are lazy and every subscription is independent.
use super::{tier_name, Plan, Tier};
use crate::ast::*;
use crate::catalogue::*;
use crate::drive::*;
use crate::model;
use crate::probe::Probe;
use crate::report::{Finish, Job, Obs};
use crate::val::*;
use rxrust::prelude::*;
use serde_json::json;
use std::cell::RefCell;
use std::rc::Rc;

fn mk_chain(head: Pipe, ops: &[Op1]) -> Pipe {
  ops.iter().fold(head, |p, op| p.o1(op.clone()))
}

fn cloneable_ops(full: bool) -> Vec<Op1> {
  // (on_complete / on_error take an FnOnce: the operator values are not Clone)
  let mut v: Vec<Op1> = list_ops(full).into_iter().filter(|o| !matches!(o, Op1::OnComplete | Op1::OnError)).collect();
  v.push(Op1::Finalize);
  v.push(Op1::BoxIt);
  v.extend([
    Op1::Delay(1),
    Op1::DelaySubscription(1),
    Op1::ObserveOn,
    Op1::SubscribeOn,
    Op1::Debounce(1),
    Op1::BufferWithTime(1),
    Op1::BufferWithCountAndTime(2, 1),
    Op1::SampleInterval(1),
  ]);
  v
}

fn counters(r: &Run) -> (usize, usize, usize, usize) {
  (
    Counters::get(&r.cx.ctr.src_calls),
    Counters::get(&r.cx.ctr.pulls),
    Counters::get(&r.cx.ctr.taps),
    Counters::get(&r.cx.ctr.finals),
  )
}

fn settle(r: &mut Run, timed: bool) {
  r.drain();
  if timed {
    // long enough for three stacked one-tick stages plus a delayed nested start
    for _ in 0..10 {
      r.tick();
    }
  }
}

fn sig(pipe: &Pipe) -> String {
  super::c01::sig(pipe)
}

/// build once; subscribe clones 1, 2, 3 one after the other; then subscribe a
/// fresh clone from inside the first callback of another one
fn check_pipe(obs: &mut Obs, pipe: &Pipe) {
  let timed = pipe.uses_time();
  let mut r = Run::prepare(1, Form::Local);
  let op: COp = build_clone(pipe, &r.cx);
  settle(&mut r, timed);
  obs.checks += 1;
  let c0 = counters(&r);
  if c0 != (0, 0, 0, 0) {
    obs.fail(
      format!("c13:eager:{}", sig(pipe)),
      format!("{}: building ran work: (source closures, iterator pulls, tap calls, finalizers) = {c0:?}", pipe.show()),
    );
    return;
  }
  let mut traces: Vec<Vec<Note>> = vec![];
  let mut deltas: Vec<(usize, usize, usize, usize)> = vec![];
  let mut prev = c0;
  let mut keep = vec![];
  for _ in 0..3 {
    let p = Probe::new();
    keep.push(op.clone().actual_subscribe(p.clone()));
    settle(&mut r, timed);
    let c = counters(&r);
    deltas.push((c.0 - prev.0, c.1 - prev.1, c.2 - prev.2, c.3 - prev.3));
    prev = c;
    traces.push(p.notes());
  }
  // nested: subscribe another clone from inside a callback
  let nested: Rc<RefCell<Option<Probe>>> = Rc::new(RefCell::new(None));
  let (op2, n2) = (op.clone(), nested.clone());
  let subs: Rc<RefCell<Vec<BoxSubscription<'static>>>> = Rc::new(RefCell::new(vec![]));
  let subs2 = subs.clone();
  let outer = Probe::with_hook(move |_| {
    if n2.borrow().is_none() {
      let p = Probe::new();
      *n2.borrow_mut() = Some(p.clone());
      let u = op2.clone().actual_subscribe(p);
      subs2.borrow_mut().push(u);
    }
  });
  keep.push(op.clone().actual_subscribe(outer.clone()));
  settle(&mut r, timed);
  traces.push(outer.notes());
  if let Some(p) = nested.borrow().as_ref() {
    traces.push(p.notes());
  }
  // tearing one subscription down must not affect a later subscription of another clone
  if let Some(u) = keep.first_mut().map(|u| std::mem::replace(u, BoxSubscription::new(()))) {
    u.unsubscribe();
  }
  settle(&mut r, timed);
  let after = Probe::new();
  keep.push(op.clone().actual_subscribe(after.clone()));
  settle(&mut r, timed);
  if after.notes() != traces[0] {
    obs.fail(
      format!("c13:dependent-after-unsubscribe:{}", sig(pipe)),
      format!(
        "{}: subscription #1 saw [{}]; after it had been unsubscribed a fresh clone's subscription saw [{}]",
        pipe.show(),
        fmt_notes(&traces[0]),
        fmt_notes(&after.notes())
      ),
    );
  }
  let n_traces = traces.len();
  for (i, t) in traces.iter().enumerate() {
    if *t != traces[0] {
      let which = if i == n_traces - 1 && nested.borrow().is_some() {
        "nested".to_string()
      } else {
        format!("#{}", i + 1)
      };
      obs.fail(
        format!("c13:dependent:{}", sig(pipe)),
        format!(
          "{}: subscription #1 saw [{}] but subscription {which} saw [{}]",
          pipe.show(),
          fmt_notes(&traces[0]),
          fmt_notes(t)
        ),
      );
      break;
    }
  }
  if deltas.iter().any(|d| *d != deltas[0]) {
    obs.fail(
      format!("c13:work-per-subscription:{}", sig(pipe)),
      format!(
        "{}: (source closures, iterator pulls, tap calls, finalizer runs) per subscription = {deltas:?}",
        pipe.show()
      ),
    );
  }
  // sources carrying a closure run it exactly once per subscription
  fn calls(s: &Src) -> usize {
    match s {
      Src::OfFn(_) | Src::Start(_) | Src::Create(_) | Src::IntoIter(_) => 1,
      Src::FromFuture(_) | Src::FromFutureResult(_) => 1,
      Src::Defer(i) => 1 + calls(i),
      _ => 0,
    }
  }
  fn head(p: &Pipe) -> &Src {
    match p {
      Pipe::S(s) => s,
      Pipe::O1(_, i) => head(i),
      Pipe::O2(_, a, _) => head(a),
    }
  }
  // a delayed subscription that was never reached does not count
  if !pipe.any_op1(&|o| matches!(o, Op1::DelaySubscription(_) | Op1::SubscribeOn)) || timed {
    let want = calls(head(pipe));
    if deltas[0].0 != want {
      obs.fail(
        format!("c13:closure-calls:{}", sig(pipe)),
        format!("{}: source closures ran {} times per subscription, expected {want}", pipe.show(), deltas[0].0),
      );
    }
  }
  // and the output is the documented one
  if !timed {
    if let Some(exp) = model::chain(pipe, &Seq::open()) {
      if exp.notes() != traces[0] {
        obs.fail(
          format!("c13:sequence:{}", sig(pipe)),
          format!("{}: expected [{}] got [{}]", pipe.show(), fmt_notes(&exp.notes()), fmt_notes(&traces[0])),
        );
      }
    }
  }
  obs.delivered += traces.iter().map(|t| t.len() as u64).sum::<u64>();
  obs.note_outcome(&traces);
  obs.log(|| format!("{}: [{}] deltas {deltas:?}", pipe.show(), fmt_notes(&traces[0])));
}

fn script_job(ops: Vec<Op1>, len: usize) -> Job {
  let name = format!(
    "cold-scripts L{len} .{}",
    ops.iter().map(|o| format!("{o:?}")).collect::<Vec<_>>().join(".")
  );
  Job::new(name, move |ch, obs| {
    let mut script: Vec<NoteSpec> = vec![];
    for _ in 0..len {
      let k = ch.choose(ALPHA + 1);
      if k == ALPHA {
        break;
      }
      let n = match alpha(k) {
        Note::N(V::I(n)) => NoteSpec::N(n),
        Note::C => NoteSpec::C,
        Note::Err(e) => NoteSpec::Err(e),
        _ => unreachable!(),
      };
      let term = !matches!(n, NoteSpec::N(_));
      script.push(n);
      if term {
        break;
      }
    }
    ch.label(|| format!("script {script:?}"));
    let mut heads = vec![Src::Create(script.clone())];
    if script.last() == Some(&NoteSpec::C) {
      let items = script
        .iter()
        .filter_map(|n| if let NoteSpec::N(v) = n { Some(*v) } else { None })
        .collect();
      heads.push(Src::Iter(items));
    }
    for h in heads {
      check_pipe(obs, &mk_chain(Pipe::S(h), &ops));
    }
  })
}

fn src_job(head: Src, ops: Vec<Op1>) -> Job {
  let pipe = mk_chain(Pipe::S(head), &ops);
  Job::new(format!("cold {}", pipe.show()), move |_ch, obs| check_pipe(obs, &pipe))
}

fn op_seqs(ops: &[Op1], depth: usize) -> Vec<Vec<Op1>> {
  let mut out: Vec<Vec<Op1>> = vec![vec![]];
  let mut level: Vec<Vec<Op1>> = vec![vec![]];
  for _ in 0..depth {
    let mut next = vec![];
    for c in &level {
      for op in ops {
        let mut n = c.clone();
        n.push(op.clone());
        next.push(n);
      }
    }
    out.extend(next.iter().cloned());
    level = next;
  }
  out
}

/// Two subscriptions of clones of one built pipeline alive at the same time,
/// the second made in the middle of the history (hot `create` inputs: every
/// subscription has its own subscriber, all of them get every event): each
/// sees exactly what the list model gives for the events since *its*
/// subscription — no gate, counter, buffer or flag is shared between them.
fn staggered_job(pipe: Pipe, len: usize) -> Job {
  let n_in = pipe.n_inputs().max(1);
  Job::new(format!("staggered L{len} {}", pipe.show()), move |ch, obs| {
    let mut r = Run::prepare(n_in, Form::Local);
    let op: COp = build_clone(&pipe, &r.cx);
    let p1 = Probe::new();
    let _u1 = op.clone().actual_subscribe(p1.clone());
    let join_at = ch.choose(len + 1);
    ch.label(|| format!("second subscription before event {join_at}"));
    let p2 = Probe::new();
    let mut _u2 = None;
    let mut tl: Vec<(usize, Note)> = vec![];
    for k in 0..=len {
      if k == join_at {
        _u2 = Some(op.clone().actual_subscribe(p2.clone()));
      }
      if k == len {
        break;
      }
      let c = ch.choose(n_in * ALPHA4);
      let (port, ev) = (c / ALPHA4, alpha4(c % ALPHA4));
      ch.label(|| format!("in{port} <- {ev:?}"));
      r.emit(port, &ev);
      r.drain();
      tl.push((port, ev));
      obs.checks += 1;
      for (who, probe, from) in [("first", &p1, 0usize), ("second", &p2, join_at)] {
        // (the second one exists only from its subscription on)
        if from >= tl.len() {
          continue;
        }
        let seen = &tl[from..];
        let got = probe.seq();
        let ok = match &pipe {
          Pipe::O2(op2, ..) => match model::op2(*op2, seen) {
            Some(exp) => model::exp2_matches(&exp, &got),
            None => {
              obs.unspecified += 1;
              true
            }
          },
          _ => {
            let hist: Vec<Note> = seen.iter().map(|(_, n)| n.clone()).collect();
            match model::chain(&pipe, &model::normalize(&hist)) {
              Some(exp) => exp.notes() == probe.notes(),
              None => {
                obs.unspecified += 1;
                true
              }
            }
          }
        };
        if !ok {
          obs.fail(
            format!("c13:dependent-concurrent-subscriptions:{}", sig(&pipe)),
            format!(
              "{}: events [{}], the second clone subscribed before event {join_at}: the {who} subscription saw [{}], which is not what its own events give",
              pipe.show(),
              tl.iter().map(|(p, n)| format!("in{p}<-{n:?}")).collect::<Vec<_>>().join(" "),
              fmt_notes(&probe.notes())
            ),
          );
        }
      }
      if !obs.viol.is_empty() {
        break;
      }
    }
    obs.delivered = (p1.len() + p2.len()) as u64;
    obs.note_outcome(&(p1.notes(), p2.notes()));
  })
}

/// The same question for operators that have no list model (timers, schedulers):
/// two clones of one built pipeline, subscribed at different points of one hot,
/// timed history, each compared with a *separately built* pipeline subscribed at
/// the same moment. Clones of one operator value behave like independently built
/// operators, also while both are alive and when one of them is unsubscribed.
fn staggered_diff_job(pipe: Pipe, len: usize) -> Job {
  Job::new(format!("staggered-diff L{len} {}", pipe.show()), move |ch, obs| {
    let mut r = Run::prepare(1, Form::Local);
    let shared: COp = build_clone(&pipe, &r.cx);
    let (ref1, ref2): (COp, COp) = (build_clone(&pipe, &r.cx), build_clone(&pipe, &r.cx));
    let (p1, q1, p2, q2) = (Probe::new(), Probe::new(), Probe::new(), Probe::new());
    let mut u1 = Some(shared.clone().actual_subscribe(p1.clone()));
    let mut v1 = Some(ref1.actual_subscribe(q1.clone()));
    let mut ref2 = Some(ref2);
    r.drain();
    let join_at = ch.choose(len + 1);
    ch.label(|| format!("second subscription before step {join_at}"));
    let mut keep = vec![];
    let mut hist: Vec<String> = vec![];
    let mut n = 0i64;
    for k in 0..=len {
      if k == join_at {
        keep.push(shared.clone().actual_subscribe(p2.clone()));
        keep.push(ref2.take().unwrap().actual_subscribe(q2.clone()));
        r.drain();
        hist.push("subscribe-second".into());
      }
      if k == len {
        break;
      }
      let mut menu = vec!["next", "tick", "complete", "error"];
      if u1.is_some() {
        menu.push("unsubscribe-first");
      }
      let act = menu[ch.choose(menu.len())];
      ch.label(|| act.to_string());
      hist.push(act.to_string());
      match act {
        "next" => {
          n += 1;
          r.emit(0, &Note::N(V::I(n)));
          r.drain();
        }
        "tick" => {
          r.tick();
        }
        "complete" => {
          r.emit(0, &Note::C);
          r.drain();
        }
        "error" => {
          r.emit(0, &Note::Err(E::E0));
          r.drain();
        }
        _ => {
          u1.take().unwrap().unsubscribe();
          v1.take().unwrap().unsubscribe();
          r.drain();
        }
      }
      obs.checks += 1;
      for (who, a, b) in [("first", &p1, &q1), ("second", &p2, &q2)] {
        if a.notes() != b.notes() {
          obs.fail(
            format!("c13:dependent-concurrent-subscriptions:{}", sig(&pipe)),
            format!(
              "{} after [{}]: the {who} subscription of a clone saw [{}], an independently built pipeline subscribed at the same moment saw [{}]",
              pipe.show(),
              hist.join(" "),
              fmt_notes(&a.notes()),
              fmt_notes(&b.notes())
            ),
          );
        }
      }
      if !obs.viol.is_empty() {
        break;
      }
    }
    // let everything that is still scheduled run out
    for _ in 0..4 {
      r.tick();
    }
    for (who, a, b) in [("first", &p1, &q1), ("second", &p2, &q2)] {
      if obs.viol.is_empty() && a.notes() != b.notes() {
        obs.fail(
          format!("c13:dependent-concurrent-subscriptions:{}", sig(&pipe)),
          format!(
            "{} after [{}] and four more ticks: the {who} subscription of a clone saw [{}], an independently built one [{}]",
            pipe.show(),
            hist.join(" "),
            fmt_notes(&a.notes()),
            fmt_notes(&b.notes())
          ),
        );
      }
    }
    obs.delivered = (p1.len() + p2.len()) as u64;
    obs.note_outcome(&(p1.notes(), p2.notes()));
  })
}

/// Building a pipeline does not start any clock either: build, let real time
/// pass, subscribe and drive it; every timer the pipeline asks for is a whole
/// number of configured ticks (a duration measured against `Instant::now()` from
/// the moment of *construction* comes out a few milliseconds short).
fn build_gap_job(pipe: Pipe) -> Job {
  Job::new(format!("{} built, 12 ms of real time pass, then subscribed", pipe.show()), move |_ch, obs| {
    let mut r = Run::prepare(1, Form::Local);
    let op: COp = build_clone(&pipe, &r.cx);
    std::thread::sleep(std::time::Duration::from_millis(12));
    let p = Probe::new();
    let _u = op.clone().actual_subscribe(p.clone());
    r.emit(0, &Note::N(V::I(0)));
    settle(&mut r, true);
    obs.checks += 1;
    let tick = crate::world::ticks(1);
    for req in crate::world::timer_log() {
      if req.dur.as_nanos() % tick.as_nanos() != 0 {
        obs.fail(
          format!("c13:clock-started-at-construction:{}", sig(&pipe)),
          format!(
            "{} was built 12 ms before it was subscribed and asked for a timer of {:?}: not a whole number of its configured periods ({tick:?})",
            pipe.show(),
            req.dur
          ),
        );
        break;
      }
    }
    obs.delivered = p.len() as u64 + 1;
    obs.note_outcome(&p.notes());
  })
}

pub fn plan(tier: Tier) -> Plan {
  let mut jobs = vec![];
  let full = cloneable_ops(true);
  let reduced = cloneable_ops(false);
  let configs: Vec<(&Vec<Op1>, usize, usize)> = match tier {
    Tier::Quick => vec![(&full, 1, 4), (&reduced, 2, 3)],
    Tier::Thorough => vec![(&full, 2, 4), (&reduced, 3, 3)],
  };
  let mut bounds = vec![];
  for (ops, depth, len) in configs {
    bounds.push(json!({"operators": ops.len(), "depth": depth, "script_len": len}));
    for seq in op_seqs(ops, depth) {
      jobs.push(script_job(seq.clone(), len));
      if seq.len() <= 2 {
        for s in cold_sources() {
          jobs.push(src_job(s, seq.clone()));
        }
      }
      if seq.len() <= 1 {
        // asynchronous cold sources: futures / streams are run once per subscription
        for s in [
          Src::FromFuture(3),
          Src::FromFutureResult(Ok(3)),
          Src::FromFutureResult(Err(E::E1)),
          Src::StreamCount(2),
        ] {
          jobs.push(src_job(s, seq.clone()));
        }
      }
    }
  }
  let slen = if tier == Tier::Quick { 4 } else { 5 };
  for op in list_ops(false).into_iter().filter(|o| !matches!(o, Op1::OnComplete | Op1::OnError | Op1::Tap)) {
    jobs.push(staggered_job(Pipe::S(Src::Raw(0)).o1(op), slen));
  }
  for op2 in Op2::ALL {
    jobs.push(staggered_job(Pipe::S(Src::Raw(0)).o2(op2, Pipe::S(Src::Raw(1))), slen));
  }
  for op in [
    Op1::Delay(1),
    Op1::DelaySubscription(1),
    Op1::Debounce(1),
    Op1::BufferWithTime(1),
    Op1::BufferWithCountAndTime(2, 1),
    Op1::SampleInterval(1),
    Op1::ObserveOn,
    Op1::SubscribeOn,
  ] {
    jobs.push(build_gap_job(Pipe::hot(0).o1(op.clone())));
    jobs.push(staggered_diff_job(Pipe::hot(0).o1(op), slen + 1));
  }
  for op in [
    Op1::Finalize,
    Op1::BoxIt,
    Op1::Distinct,
    Op1::Scan,
    Op1::ThrottleBy(Edge::Leading),
    Op1::ThrottleBy(Edge::All),
    Op1::ThrottleBy(Edge::Tailing),
  ] {
    jobs.push(staggered_diff_job(Pipe::hot(0).o1(op), slen + 1));
  }
  Plan {
    jobs,
    finish: Finish {
      prop: "C13".into(),
      tier: tier_name(tier),
      engine: "E1 opseq".into(),
      rule: "every chain up to the depth bound of cloneable catalogue operators (CloneableBoxOp at every stage, so the operators' own Clone impls are what is exercised) over every cold source and every cold script up to the length bound: built only (all closure / iterator / tap counters must still be 0), then clones 1, 2, 3 subscribed one after the other, then a clone subscribed from inside a callback of another; all traces identical and equal to the list model, counters advance by the same amount per subscription, source closures exactly once; two clones subscribed at different points of one hot history each see what their own events give (operators without a list model: compared with separately built pipelines subscribed at the same moments, through ticks and an unsubscription of the first); a pipeline built 12 ms before it is subscribed asks only for whole periods (no clock starts at construction); non-trivial = something was delivered".into(),
      bounds: json!(bounds),
      assumptions: vec!["share() is shared by design and not part of the independence clause".into()],
    },
  }
}
