//! C20 — group_by sends every item to exactly one group, in order.
use super::{tier_name, Plan, Tier};
use crate::ast::*;
use crate::drive::*;
use crate::probe::Probe;
use crate::report::{Finish, Job};
use crate::val::*;
use crate::world;
use rxrust::ops::group_by::KeyObservable;
use rxrust::prelude::*;
use serde_json::json;
use std::sync::{Arc, Mutex};

/// outer observer: records announcements and attaches a probe to each group
/// inside the announcement callback
struct GroupSink<S> {
  groups: Arc<Mutex<Vec<(V, Probe)>>>,
  outer: Probe,
  /// also attach, ahead of the recorded probe, a subscriber that leaves again
  /// right away (it stays in the group's list until the next emission)
  leaver_first: bool,
  /// false: the groups are announced but nobody subscribes them
  attach: bool,
  _s: std::marker::PhantomData<S>,
}

macro_rules! sink_impl {
  ($subj:ty) => {
    impl Observer<KeyObservable<V, $subj>, E> for GroupSink<$subj> {
      fn next(&mut self, g: KeyObservable<V, $subj>) {
        let p = Probe::new();
        self.groups.lock().unwrap().push((g.key.clone(), p.clone()));
        self.outer.next(g.key.clone());
        if self.leaver_first {
          g.clone().actual_subscribe(Probe::new()).unsubscribe();
        }
        if self.attach {
          g.actual_subscribe(p);
        }
      }
      fn error(self, e: E) {
        self.outer.error(e)
      }
      fn complete(self) {
        self.outer.complete()
      }
      fn is_finished(&self) -> bool {
        false
      }
    }
  };
}
sink_impl!(Subject<'static, V, E>);
sink_impl!(SubjectThreads<V, E>);

/// key functions: value based ones, and two that depend on how often they were
/// called (legal: the discriminator is an `FnMut`) — position round-robin and
/// chunking by position
#[derive(Clone, Copy, Debug, PartialEq, Eq)]
pub enum KeyFn {
  Val(K),
  RoundRobin,
  Chunk2,
}
impl KeyFn {
  /// key of the item at position `i` (0-based) in the source
  fn model(self, i: usize, v: &V) -> V {
    match self {
      KeyFn::Val(k) => k.ev(v),
      KeyFn::RoundRobin => V::I((i % 2) as i64),
      KeyFn::Chunk2 => V::I((i / 2) as i64),
    }
  }
  /// the closure handed to group_by
  fn make(self) -> impl FnMut(&V) -> V + Send + 'static {
    let mut calls = 0usize;
    move |v: &V| {
      let k = self.model(calls, v);
      calls += 1;
      k
    }
  }
  pub const ALL: [KeyFn; 5] =
    [KeyFn::Val(K::Const), KeyFn::Val(K::Id), KeyFn::Val(K::Mod2), KeyFn::RoundRobin, KeyFn::Chunk2];
}

fn val4(k: usize) -> Note {
  match k {
    0..=3 => Note::N(V::I(k as i64)),
    4 => Note::C,
    _ => Note::Err(E::E0),
  }
}

macro_rules! group_job {
  ($fname:ident, $subj:ty, $label:expr) => {
    fn $fname(key: KeyFn, len: usize) -> Job {
      Job::new(format!("group_by({key:?}) over {} L{len}", $label), move |ch, obs| {
        let _w = world::World::new();
        let mut src = <$subj>::default();
        let groups: Arc<Mutex<Vec<(V, Probe)>>> = Arc::new(Mutex::new(vec![]));
        let outer = Probe::new();
        // other subscribers around: one on the source that has left again before
        // group_by subscribes, and/or one per group that leaves at once
        let others = ch.choose(5);
        ch.label(|| {
          ["group_by is the only subscriber", "an earlier subscriber of the source has left", "every group has an earlier subscriber that has left", "both", "nobody subscribes the groups"][others]
            .to_string()
        });
        let attach = others != 4;
        if others == 1 || others == 3 {
          src.clone().actual_subscribe(Probe::new()).unsubscribe();
        }
        let sink: GroupSink<$subj> = GroupSink {
          groups: groups.clone(),
          outer: outer.clone(),
          leaver_first: others == 2 || others == 3,
          attach,
          _s: Default::default(),
        };
        let _u = src
          .clone()
          .group_by::<_, _, $subj>(key.make())
          .actual_subscribe(sink);
        let mut hist: Vec<Note> = vec![];
        for _ in 0..len {
          let ev = val4(ch.choose(6));
          ch.label(|| format!("src <- {ev:?}"));
          world::bump_step();
          match &ev {
            Note::N(v) => src.next(v.clone()),
            Note::C => src.clone().complete(),
            Note::Err(e) => src.clone().error(*e),
          }
          hist.push(ev);
          obs.checks += 1;
          // model
          let inp = Seq::from_notes(&hist);
          let mut keys: Vec<V> = vec![];
          let item_keys: Vec<V> = inp.items.iter().enumerate().map(|(i, x)| key.model(i, x)).collect();
          for k in &item_keys {
            if !keys.contains(k) {
              keys.push(k.clone());
            }
          }
          let term: Vec<Note> = match inp.t {
            T::Open => vec![],
            T::C => vec![Note::C],
            T::Err(e) => vec![Note::Err(e)],
          };
          let gs = groups.lock().unwrap();
          let got_keys: Vec<V> = gs.iter().map(|(k, _)| k.clone()).collect();
          let mut exp_outer: Vec<Note> = keys.iter().cloned().map(Note::N).collect();
          exp_outer.extend(term.iter().cloned());
          if got_keys != keys || outer.notes() != exp_outer {
            obs.fail(
              format!("c20:announce:{}", $label),
              format!(
                "{key:?} on [{}]: announced {:?} outer [{}], expected groups {:?} outer [{}]",
                fmt_notes(&hist),
                got_keys,
                fmt_notes(&outer.notes()),
                keys,
                fmt_notes(&exp_outer)
              ),
            );
            break;
          }
          for (k, p) in gs.iter().filter(|_| attach) {
            let mut exp: Vec<Note> = inp
              .items
              .iter()
              .zip(item_keys.iter())
              .filter(|(_, ik)| *ik == k)
              .map(|(x, _)| Note::N(x.clone()))
              .collect();
            exp.extend(term.iter().cloned());
            if p.notes() != exp {
              obs.fail(
                format!("c20:routing:{}", $label),
                format!(
                  "{key:?} on [{}]: group {k:?} saw [{}] expected [{}]",
                  fmt_notes(&hist),
                  fmt_notes(&p.notes()),
                  fmt_notes(&exp)
                ),
              );
            }
          }
          if !obs.viol.is_empty() {
            break;
          }
        }
        let gs = groups.lock().unwrap();
        obs.delivered = gs.iter().map(|(_, p)| p.len() as u64).sum::<u64>() + outer.len() as u64;
        for (k, p) in gs.iter() {
          obs.note_outcome(k);
          obs.note_outcome(&p.notes());
        }
        obs.log(|| {
          gs.iter()
            .map(|(k, p)| format!("group {k:?}: [{}]", fmt_notes(&p.notes())))
            .collect::<Vec<_>>()
            .join("; ")
        });
      })
    }
  };
}
group_job!(job_local, Subject<'static, V, E>, "Subject");
group_job!(job_threads, SubjectThreads<V, E>, "SubjectThreads");

/// group_by + flat_map(identity) must reproduce the source
fn flatten_job(key: K, form: Form, len: usize) -> Job {
  let pipe = Pipe::hot(0).o1(Op1::GroupByFlatten(key));
  Job::new(format!("{form:?} {} L{len}", pipe.show()), move |ch, obs| {
    let mut r = Run::start(&pipe, form);
    let mut hist: Vec<Note> = vec![];
    for _ in 0..len {
      let ev = val4(ch.choose(6));
      ch.label(|| format!("src <- {ev:?}"));
      r.emit(0, &ev);
      hist.push(ev);
      obs.checks += 1;
      let exp = Seq::from_notes(&hist).notes();
      let got = r.probe.notes();
      if got != exp {
        obs.fail(
          format!("c20:flatten:{form:?}"),
          format!(
            "{} on [{}]: expected [{}] got [{}]",
            pipe.show(),
            fmt_notes(&hist),
            fmt_notes(&exp),
            fmt_notes(&got)
          ),
        );
        break;
      }
    }
    obs.delivered = r.probe.len() as u64;
    obs.note_outcome(&r.probe.notes());
    obs.log(|| format!("probe: [{}]", fmt_notes(&r.probe.notes())));
  })
}

/// (the item type of a group_by cannot be inferred through a bare method call)
fn cut1<S, O: ObservableExt<KeyObservable<V, S>, E>>(o: O) -> rxrust::ops::take::TakeOp<O> {
  o.take(1)
}

/// The stream of groups is cut (`take(1)`) while the group handed out keeps a
/// listener; the source is a `create` whose producer pushes on regardless (a
/// subject would stop notifying a finished observer): the open group still gets
/// every item of its key and the source's terminal.
macro_rules! cut_job {
  ($fname:ident, $subj:ty, $subscriber:ident, $label:expr) => {
    fn $fname(len: usize) -> Job {
      Job::new(format!("create -> group_by(mod 2) over {} -> take(1), L{len}", $label), move |ch, obs| {
        let _w = world::World::new();
        let slot: Arc<Mutex<Option<$subscriber<_>>>> = Arc::new(Mutex::new(None));
        let s2 = slot.clone();
        let groups: Arc<Mutex<Vec<(V, Probe)>>> = Arc::new(Mutex::new(vec![]));
        let outer = Probe::new();
        let sink: GroupSink<$subj> = GroupSink {
          groups: groups.clone(),
          outer: outer.clone(),
          leaver_first: false,
          attach: true,
          _s: Default::default(),
        };
        let _u = observable::create(move |s: $subscriber<_>| {
          *s2.lock().unwrap() = Some(s);
        })
        .group_by::<_, _, $subj>(|v: &V| V::I(v.num().rem_euclid(2)));
        let _u = cut1::<$subj, _>(_u).actual_subscribe(sink);
        let mut hist: Vec<Note> = vec![];
        for _ in 0..len {
          let ev = val4(ch.choose(6));
          ch.label(|| format!("src <- {ev:?}"));
          world::bump_step();
          let raw = slot.lock().unwrap().clone();
          if let Some(mut raw) = raw {
            match &ev {
              Note::N(v) => raw.next(v.clone()),
              Note::C => raw.complete(),
              Note::Err(e) => raw.error(*e),
            }
          }
          hist.push(ev);
          obs.checks += 1;
          let inp = Seq::from_notes(&hist);
          let gs = groups.lock().unwrap();
          if let Some(first) = inp.items.first() {
            let k = V::I(first.num().rem_euclid(2));
            let mut exp: Vec<Note> =
              inp.items.iter().filter(|x| V::I(x.num().rem_euclid(2)) == k).cloned().map(Note::N).collect();
            match inp.t {
              T::Open => {}
              T::C => exp.push(Note::C),
              T::Err(e) => exp.push(Note::Err(e)),
            }
            let got = gs.first().map(|(_, p)| p.notes()).unwrap_or_default();
            if gs.len() != 1 || got != exp {
              obs.fail(
                format!("c20:cut-group-stream:{}", $label),
                format!(
                  "on [{}]: {} groups were handed out; the first one saw [{}], expected [{}]",
                  fmt_notes(&hist),
                  gs.len(),
                  fmt_notes(&got),
                  fmt_notes(&exp)
                ),
              );
              break;
            }
          }
        }
        let gs = groups.lock().unwrap();
        obs.delivered = gs.iter().map(|(_, p)| p.len() as u64).sum::<u64>() + outer.len() as u64;
        for (_, p) in gs.iter() {
          obs.note_outcome(&p.notes());
        }
      })
    }
  };
}
cut_job!(cut_local, Subject<'static, V, E>, Subscriber, "Subject");
cut_job!(cut_threads, SubjectThreads<V, E>, SubscriberThreads, "SubjectThreads");

pub fn plan(tier: Tier) -> Plan {
  let len = match tier {
    Tier::Quick => 6,
    Tier::Thorough => 9,
  };
  let mut jobs = vec![];
  for key in KeyFn::ALL {
    for others in 0..5 {
      for first in 0..6 {
        jobs.push(job_local(key, len).root(vec![others, first]));
        jobs.push(job_threads(key, len).root(vec![others, first]));
      }
    }
  }
  for first in 0..6 {
    jobs.push(cut_local(len - 1).root(vec![first]));
    jobs.push(cut_threads(len - 1).root(vec![first]));
  }
  for key in K::ALL {
    for first in 0..6 {
      for form in [Form::Local, Form::Threads] {
        jobs.push(flatten_job(key, form, len).root(vec![first]));
      }
    }
  }
  Plan {
    jobs,
    finish: Finish {
      prop: "C20".into(),
      tier: tier_name(tier),
      engine: "E1 opseq".into(),
      rule: "every script up to the length bound over items {0,1,2,3} + complete + error (events after the terminal included) x key functions {constant, identity, value mod 2, position round-robin, position chunking (stateful FnMut keys)} x Subject / SubjectThreads groups, a probe attached to each group inside the announcement callback (or to none of them: announcements only; or the stream of groups cut by take(1) over a create() source while the first group keeps its listener); after every event: groups announced once per key in first-appearance order, every group probe holds exactly the items of its key in source order plus the terminal once, outer stream terminal once; group_by + flat_map(identity) reproduces the source; non-trivial = something was delivered".into(),
      bounds: json!({"script_len": len, "key_functions": 5, "item_alphabet": 4}),
      assumptions: vec!["order in which different groups receive the terminal is not asserted".into()],
    },
  }
}
