//! C17 — is_closed() is sound and composites tear down late additions.
use super::{tier_name, Plan, Tier};
use crate::ast::*;
use crate::catalogue::*;
use crate::drive::*;
use crate::report::{Finish, Job};
use crate::val::*;
use crate::world;
use rxrust::prelude::*;
use serde_json::json;
use std::sync::atomic::{AtomicBool, Ordering};
use std::sync::Arc;

/// the outermost operator decides which subscription type the user holds
fn top(p: &Pipe) -> &'static str {
  match p {
    Pipe::S(s) => super::c03::src_name(s),
    Pipe::O1(op, _) => op.name(),
    Pipe::O2(op, _, _) => op.name(),
  }
}

fn form_name(f: Form) -> &'static str {
  if f == Form::Local {
    "local"
  } else {
    "threads"
  }
}

/// pipeline part: is_closed() sampled after every action, unsubscribe
/// available at every position
fn pipeline_job(pipe: Pipe, form: Form, len: usize) -> Job {
  let n_in = pipe.n_inputs().max(1);
  let timed = pipe.uses_time();
  Job::new(format!("{} L{len} {}", form_name(form), pipe.show()), move |ch, obs| {
    let mut r = Run::start(&pipe, form);
    r.drain();
    let mut hist: Vec<String> = vec![];
    let mut closed_at: Option<(usize, usize)> = None; // (probe len, action index) when first true
    let n_ev = n_in * ALPHA4;
    let sample = |r: &Run, obs: &mut crate::report::Obs, hist: &Vec<String>, closed_at: &mut Option<(usize, usize)>| {
      obs.checks += 1;
      if !r.sub.is_some() {
        return;
      }
      let c = r.sub.is_closed();
      match (*closed_at, c) {
        (None, true) => *closed_at = Some((r.probe.len(), hist.len())),
        (Some(_), false) => obs.fail(
          format!("c17:reopened:{}:{}", form_name(r.form), top(&pipe)),
          format!("{} after [{}]: is_closed() was true and is false again", pipe.show(), hist.join(" ")),
        ),
        _ => {}
      }
    };
    sample(&r, obs, &hist, &mut closed_at);
    for _ in 0..len {
      let n_act = n_ev + timed as usize + r.sub.is_some() as usize;
      let k = ch.choose(n_act);
      if k < n_ev {
        let (i, ev) = (k / ALPHA4, alpha4(k % ALPHA4));
        ch.label(|| format!("in{i} <- {ev:?}"));
        hist.push(format!("in{i}<-{ev:?}"));
        r.emit(i, &ev);
        // sample once while whatever the event scheduled is still waiting for the
        // executor, and again after it has run
        r.world.settle();
        sample(&r, obs, &hist, &mut closed_at);
        r.drain();
      } else if timed && k == n_ev {
        ch.label(|| "tick".into());
        hist.push("tick".into());
        r.tick();
      } else {
        ch.label(|| "unsubscribe".into());
        hist.push("unsubscribe".into());
        world::bump_step();
        r.sub.unsubscribe();
        r.drain();
        // "after unsubscribe() any remaining handle to the same subscription
        // reports closed": the subscriber a `create` producer kept is one
        let open_handles: usize = match form {
          Form::Local => r.cx.raw_l.iter().map(|v| v.borrow().iter().filter(|s| !s.is_closed()).count()).sum(),
          Form::Threads => r.cx.raw_t.iter().map(|v| v.lock().unwrap().iter().filter(|s| !s.is_closed()).count()).sum(),
        };
        if open_handles > 0 {
          obs.fail(
            format!("c17:producer-handle-open-after-unsubscribe:{}:{}", form_name(form), top(&pipe)),
            format!(
              "{} after [{}]: unsubscribe() has returned, {open_handles} subscriber handle(s) kept by the create() producer still report open",
              pipe.show(),
              hist.join(" ")
            ),
          );
        }
      }
      sample(&r, obs, &hist, &mut closed_at);
      if let Some((n, at)) = closed_at {
        if r.probe.len() > n {
          obs.fail(
            format!("c17:delivered-after-closed:{}:{}", form_name(form), top(&pipe)),
            format!(
              "{} after [{}]: is_closed() returned true after action {at} with {n} notifications delivered, now [{}]",
              pipe.show(),
              hist.join(" "),
              fmt_notes(&r.probe.notes())
            ),
          );
        }
      }
      if !obs.viol.is_empty() {
        break;
      }
    }
    if timed && obs.viol.is_empty() {
      for _ in 0..3 {
        r.tick();
        hist.push("tick".into());
        sample(&r, obs, &hist, &mut closed_at);
        if let Some((n, at)) = closed_at {
          if r.probe.len() > n {
            obs.fail(
              format!("c17:delivered-after-closed:{}:{}", form_name(form), top(&pipe)),
              format!(
                "{} after [{}]: is_closed() returned true after action {at} with {n} notifications delivered, now [{}]",
                pipe.show(),
                hist.join(" "),
                fmt_notes(&r.probe.notes())
              ),
            );
            break;
          }
        }
      }
    }
    obs.delivered = r.probe.len() as u64;
    obs.note_outcome(&r.probe.notes());
    obs.note_outcome(&closed_at);
    obs.log(|| format!("probe: [{}] closed first seen {closed_at:?}", fmt_notes(&r.probe.notes())));
  })
}

// ------------------------------------------------------------- composites

/// teardown callback of a child (single-threaded engine: `Send` is a formality)
struct OnUnsub(Box<dyn FnMut()>);
unsafe impl Send for OnUnsub {}

/// controllable child subscription
#[derive(Clone, Default)]
struct Ctl {
  finished: Arc<AtomicBool>,
  unsubscribed: Arc<AtomicBool>,
  /// runs when this child is unsubscribed (e.g. appends another child to the
  /// composite that is being torn down)
  on_unsub: Option<Arc<std::sync::Mutex<OnUnsub>>>,
}
impl Subscription for Ctl {
  fn unsubscribe(self) {
    self.unsubscribed.store(true, Ordering::SeqCst);
    if let Some(f) = &self.on_unsub {
      (f.lock().unwrap().0)();
    }
  }
  fn is_closed(&self) -> bool {
    self.finished.load(Ordering::SeqCst) || self.unsubscribed.load(Ordering::SeqCst)
  }
}

macro_rules! multi_job {
  ($fname:ident, $multi:ty, $boxsub:ident, $label:expr) => {
    fn $fname(len: usize) -> Job {
      Job::new(format!("{} composite ops L{len}", $label), move |ch, obs| {
        let _w = world::World::new();
        let mut handles: Vec<$multi> = vec![<$multi>::default()];
        handles.push(handles[0].clone());
        let mut kids: Vec<Ctl> = vec![];
        // children appended from inside another child's teardown
        let late_kids: std::rc::Rc<std::cell::RefCell<Vec<Ctl>>> = Default::default();
        let mut unsub = false;
        let mut seen_true = false;
        let mut hist: Vec<String> = vec![];
        for _ in 0..len {
          let mut menu: Vec<(&str, usize)> =
            vec![("append@h0", 0), ("append@h1", 1), ("append-child-that-appends-on-teardown", 0)];
          for k in 0..kids.len() {
            if !kids[k].is_closed() {
              menu.push(("child-finishes", k));
            }
          }
          menu.push(("retain@h0", 0));
          menu.push(("clone-handle", 0));
          if handles.len() > 1 {
            menu.push(("unsubscribe-via-last-handle", 0));
          }
          let (act, arg) = menu[ch.choose(menu.len())];
          ch.label(|| format!("{act}({arg})"));
          hist.push(format!("{act}({arg})"));
          let mut grew_live = false;
          match act {
            "append@h0" | "append@h1" => {
              let c = Ctl::default();
              kids.push(c.clone());
              let idx = arg.min(handles.len() - 1);
              handles[idx].append($boxsub::new(c));
              grew_live = !unsub;
            }
            "append-child-that-appends-on-teardown" => {
              let mut target = handles[0].clone();
              let lk = late_kids.clone();
              let c = Ctl {
                on_unsub: Some(Arc::new(std::sync::Mutex::new(OnUnsub(Box::new(move || {
                  let n = Ctl::default();
                  lk.borrow_mut().push(n.clone());
                  target.append($boxsub::new(n));
                }))))),
                ..Default::default()
              };
              kids.push(c.clone());
              handles[0].append($boxsub::new(c));
              grew_live = !unsub;
            }
            "child-finishes" => kids[arg].finished.store(true, Ordering::SeqCst),
            "retain@h0" => handles[0].retain(),
            "clone-handle" => {
              let c = handles[0].clone();
              handles.push(c);
            }
            "unsubscribe-via-last-handle" => {
              handles.pop().unwrap().unsubscribe();
              unsub = true;
            }
            _ => unreachable!(),
          }
          obs.checks += 1;
          let all_kids_closed = kids.iter().all(|k| k.is_closed());
          for (i, h) in handles.iter().enumerate() {
            let c = h.is_closed();
            if c && !unsub && !all_kids_closed {
              obs.fail(
                format!("c17:composite-closed-with-live-child:{}", $label),
                format!("after [{}]: handle {i} reports closed while a child is live", hist.join(" ")),
              );
            }
            if unsub && !c {
              obs.fail(
                format!("c17:composite-open-after-unsubscribe:{}", $label),
                format!("after [{}]: handle {i} reports open after unsubscribe()", hist.join(" ")),
              );
            }
            // growing a live composite re-opens it by definition: not asserted
            if seen_true && !c && !grew_live && !unsub {
              // a previous append made it live again; only flag a flip that no
              // append explains
              if kids.iter().all(|k| k.is_closed()) {
                obs.fail(
                  format!("c17:composite-reopened:{}", $label),
                  format!("after [{}]: handle {i} went from closed to open", hist.join(" ")),
                );
              }
            }
            if c {
              seen_true = true;
            }
          }
          if unsub {
            for (k, kid) in late_kids.borrow().iter().enumerate() {
              if !kid.unsubscribed.load(Ordering::SeqCst) {
                obs.fail(
                  format!("c17:child-appended-during-teardown-left-running:{}", $label),
                  format!(
                    "after [{}]: child {k} appended from inside another child's teardown is still live after unsubscribe() returned",
                    hist.join(" ")
                  ),
                );
              }
            }
            for (k, kid) in kids.iter().enumerate() {
              if !kid.unsubscribed.load(Ordering::SeqCst) && !kid.finished.load(Ordering::SeqCst) {
                obs.fail(
                  format!("c17:child-left-running:{}", $label),
                  format!(
                    "after [{}]: child {k} is still live although the composite was unsubscribed",
                    hist.join(" ")
                  ),
                );
              }
            }
          }
          if !obs.viol.is_empty() {
            break;
          }
        }
        obs.delivered = kids.len() as u64;
        obs.note_outcome(&kids.iter().map(|k| (k.is_closed(), k.unsubscribed.load(Ordering::SeqCst))).collect::<Vec<_>>());
        obs.log(|| format!("children (closed, unsubscribed): {:?}", kids.iter().map(|k| (k.is_closed(), k.unsubscribed.load(Ordering::SeqCst))).collect::<Vec<_>>()));
      })
    }
  };
}
multi_job!(multi_local, MultiSubscription<'static>, BoxSubscription, "MultiSubscription");
multi_job!(multi_threads, MultiSubscriptionThreads, BoxSubscriptionThreads, "MultiSubscriptionThreads");

/// the shared-cell subscription (`MutRc<Option<U>>` / `MutArc<Option<U>>`: what
/// debounce, throttle and the flattening operators keep their task / inner
/// handles in, and a public `Subscription` in its own right): clones are handles
/// to the same subscription
macro_rules! cell_job {
  ($fname:ident, $rc:ident, $label:expr) => {
    fn $fname(len: usize) -> Job {
      use rxrust::rc::$rc;
      Job::new(format!("{}<Option<child>> ops L{len}", $label), move |ch, obs| {
        let _w = world::World::new();
        let child = Ctl::default();
        let mut handles: Vec<Option<$rc<Option<Ctl>>>> = vec![Some($rc::own(Some(child.clone())))];
        let mut unsubscribed = false;
        let mut hist: Vec<String> = vec![];
        for _ in 0..len {
          let mut menu: Vec<(&str, usize)> = vec![];
          for (k, h) in handles.iter().enumerate() {
            if h.is_some() {
              menu.push(("unsubscribe", k));
              if handles.len() < 3 {
                menu.push(("clone", k));
              }
            }
          }
          if menu.is_empty() {
            break;
          }
          let (act, k) = menu[ch.choose(menu.len())];
          ch.label(|| format!("{act}({k})"));
          hist.push(format!("{act}({k})"));
          match act {
            "clone" => {
              let c = handles[k].as_ref().unwrap().clone();
              handles.push(Some(c));
            }
            _ => {
              handles[k].take().unwrap().unsubscribe();
              unsubscribed = true;
            }
          }
          obs.checks += 1;
          if unsubscribed && !child.unsubscribed.load(Ordering::SeqCst) {
            obs.fail(
              format!("c17:cell-child-left-running:{}", $label),
              format!("after [{}]: unsubscribe() through a handle did not unsubscribe the subscription in the cell", hist.join(" ")),
            );
          }
          for (j, h) in handles.iter().enumerate() {
            if let Some(h) = h {
              if h.is_closed() != unsubscribed {
                obs.fail(
                  format!("c17:cell-handle-closed-state:{}", $label),
                  format!(
                    "after [{}]: handle {j} reports closed = {}, the subscription was {}unsubscribed through another handle",
                    hist.join(" "),
                    h.is_closed(),
                    if unsubscribed { "" } else { "not " }
                  ),
                );
              }
            }
          }
          if !obs.viol.is_empty() {
            break;
          }
        }
        obs.delivered = 1;
        obs.note_outcome(&(unsubscribed, handles.len()));
      })
    }
  };
}
cell_job!(cell_local, MutRc, "MutRc");
cell_job!(cell_threads, MutArc, "MutArc");

fn zip_job(len: usize) -> Job {
  Job::new(format!("ZipSubscription ops L{len}"), move |ch, obs| {
    let _w = world::World::new();
    let (a, b) = (Ctl::default(), Ctl::default());
    let mut z = Some(ZipSubscription::new(a.clone(), b.clone()));
    let mut hist: Vec<&str> = vec![];
    let mut seen_true = false;
    for _ in 0..len {
      let mut menu = vec![];
      if !a.is_closed() {
        menu.push("a-finishes");
      }
      if !b.is_closed() {
        menu.push("b-finishes");
      }
      if z.is_some() {
        menu.push("unsubscribe");
      }
      if menu.is_empty() {
        break;
      }
      let act = menu[ch.choose(menu.len())];
      ch.label(|| act.to_string());
      hist.push(act);
      match act {
        "a-finishes" => a.finished.store(true, Ordering::SeqCst),
        "b-finishes" => b.finished.store(true, Ordering::SeqCst),
        _ => z.take().unwrap().unsubscribe(),
      }
      obs.checks += 1;
      if let Some(z) = &z {
        let c = z.is_closed();
        if c && !(a.is_closed() && b.is_closed()) {
          obs.fail(
            "c17:pair-closed-with-live-side",
            format!("after [{}]: pair reports closed while one side is live", hist.join(" ")),
          );
        }
        if seen_true && !c {
          obs.fail("c17:pair-reopened", format!("after [{}]", hist.join(" ")));
        }
        seen_true |= c;
      } else if !(a.is_closed() && b.is_closed()) {
        obs.fail(
          "c17:pair-side-left-running",
          format!("after [{}]: a side is still live after unsubscribe()", hist.join(" ")),
        );
      }
      if !obs.viol.is_empty() {
        break;
      }
    }
    obs.delivered = 1;
    obs.note_outcome(&(a.is_closed(), b.is_closed(), seen_true));
  })
}

pub fn plan(tier: Tier) -> Plan {
  let (depth, len, len2, clen) = match tier {
    Tier::Quick => (2, 3, 4, 5),
    Tier::Thorough => (2, 4, 5, 7),
  };
  let mut jobs = vec![];
  let mut n_pipes = 0u64;
  for form in [Form::Local, Form::Threads] {
    for p in chains(&Pipe::hot(0), &super::c01::all_ops(true), 1) {
      n_pipes += 1;
      jobs.push(pipeline_job(p, form, len + 1));
    }
    for p in chains(&Pipe::S(Src::Raw(0)), &super::c01::all_ops(false), 1) {
      n_pipes += 1;
      jobs.push(pipeline_job(p, form, len + 1));
    }
    // a producer that emits inside the subscription call and keeps its subscriber
    for p in chains(&Pipe::S(Src::RawEager(0)), &super::c01::all_ops(false), 1) {
      n_pipes += 1;
      jobs.push(pipeline_job(p, form, len));
    }
    for p in chains(&Pipe::hot(0), &super::c01::all_ops(false), depth) {
      if p.depth() < 2 {
        continue;
      }
      n_pipes += 1;
      jobs.push(pipeline_job(p, form, len));
    }
    for p in super::c01::two_input_pipes(&super::c01::stateful_ops()) {
      n_pipes += 1;
      let l = if p.n_inputs() >= 3 { len2.min(4) } else { len2 };
      jobs.push(pipeline_job(p, form, l));
    }
    for p in super::c01::flat_pipes() {
      n_pipes += 1;
      // "inner 1 runs, inner 2 is queued, the outer completes, inner 1 completes,
      // inner 2 emits" takes five events
      jobs.push(pipeline_job(p, form, len2 + 1));
    }
    for s in cold_sources() {
      for p in chains(&Pipe::S(s), &super::c01::all_ops(false), 1) {
        n_pipes += 1;
        jobs.push(pipeline_job(p, form, 2));
      }
    }
    for s in [Src::Interval(1), Src::Timer(3, 1), Src::IntervalAt(1, 1), Src::TimerAt(3, 2)] {
      for p in chains(&Pipe::S(s), &super::c01::all_ops(false), 1) {
        n_pipes += 1;
        jobs.push(pipeline_job(p, form, 3));
      }
    }
  }
  jobs.push(multi_local(clen));
  jobs.push(multi_threads(clen));
  jobs.push(zip_job(4));
  jobs.push(cell_local(5));
  jobs.push(cell_threads(5));
  Plan {
    jobs,
    finish: Finish {
      prop: "C17".into(),
      tier: tier_name(tier),
      engine: "E1 opseq".into(),
      rule: "pipeline part: the C01 pipeline generator (every subscription type occurs: unit, subscriber, pair, composite, task handle, ref-count, finalizer, boxed) x every action history up to the length bound over input events (+ tick) with unsubscribe available at every position; is_closed() is sampled after every action: never true then false, and no notification is delivered after it returned true. composite part: every sequence up to the length bound over {append(live child) via either handle, child finishes, retain, clone, unsubscribe via a clone} on MultiSubscription / MultiSubscriptionThreads and {side finishes, unsubscribe} on ZipSubscription over controllable children, and {clone, unsubscribe via any handle} on the shared-cell subscriptions MutRc/MutArc<Option<child>> (after unsubscribe every remaining handle reports closed and the child is torn down); non-trivial = something was delivered / a child existed".into(),
      bounds: json!({"chain_depth": depth, "history_len_chains": len, "history_len_two_input": len2, "composite_len": clen, "pipelines": n_pipes}),
      assumptions: vec![
        "an empty never-unsubscribed composite reporting closed and re-opening when a live child is appended is how a growing composite works and is not counted as `never again false`".into(),
      ],
    },
  }
}
