//! C15 — finalize runs its callback exactly once per subscription
//! (sequential part; the terminal-vs-unsubscribe race is explored by E2).
use super::{tier_name, Plan, Tier};
use crate::drive::Form;
use crate::probe::Probe;
use crate::report::{Finish, Job};
use crate::val::*;
use crate::world;
use rxrust::prelude::*;
use serde_json::json;
use std::sync::{Arc, Mutex};

#[derive(Clone, Copy, Debug, PartialEq, Eq)]
enum Shape {
  /// subject.finalize(f)
  Plain,
  /// subject.finalize(f).take(1): downstream ends early, finalize does not
  ThenTake1,
  /// subject.take(1).finalize(f): upstream operator ends early
  AfterTake1,
  /// subject.finalize(f).finalize(g): two finalizers, each exactly once
  Twice,
  /// one finalize operator value, cloned and subscribed twice: once per subscription
  Cloned,
  /// never().finalize(f): the source's handle reports closed from the start
  Never,
  /// create(raw subscriber).finalize(f).take(1): unlike a subject, a raw source
  /// delivers its terminal to an observer whose downstream has already finished
  RawThenTake1,
}

#[derive(Default)]
struct Calls {
  /// (probe had a terminal at call time, probe length at call time)
  at: Vec<(bool, usize)>,
}

/// object-safe face of a raw `create` subscriber handle
trait RawHandle {
  fn raw_next(&mut self, v: V);
  fn raw_dup(&self) -> Box<dyn RawHandle>;
  fn raw_complete(self: Box<Self>);
  fn raw_error(self: Box<Self>, e: E);
}
macro_rules! raw_handle {
  ($ty:ident) => {
    impl<O: Observer<V, E> + 'static> RawHandle for $ty<O> {
      fn raw_next(&mut self, v: V) {
        self.next(v)
      }
      fn raw_dup(&self) -> Box<dyn RawHandle> {
        Box::new(self.clone())
      }
      fn raw_complete(self: Box<Self>) {
        (*self).complete()
      }
      fn raw_error(self: Box<Self>, e: E) {
        (*self).error(e)
      }
    }
  };
}
raw_handle!(SubscriberThreads);
raw_handle!(Subscriber);

macro_rules! fin_job {
  ($fname:ident, $subj:ty, $fin:ident, $form:expr, $subscriber:ident) => {
    fn $fname(shape: Shape, len: usize) -> Job {
      Job::new(format!("{:?} finalize {shape:?} L{len}", $form), move |ch, obs| {
        let _w = world::World::new();
        let mut src = <$subj>::default();
        let probe = Probe::new();
        let probe2 = Probe::new();
        // the raw source's subscriber handle, once the pipeline is subscribed
        let stash: std::rc::Rc<std::cell::RefCell<Option<Box<dyn RawHandle>>>> = Default::default();
        let calls: Arc<Mutex<Calls>> = Arc::new(Mutex::new(Calls::default()));
        let calls2: Arc<Mutex<Calls>> = Arc::new(Mutex::new(Calls::default()));
        // set by the harness while it is inside unsubscribe()
        let in_unsub = Arc::new(std::sync::atomic::AtomicBool::new(false));
        let mk = |c: &Arc<Mutex<Calls>>| {
          let (c, p) = (c.clone(), probe.clone());
          let mut again = src.clone();
          let flag = in_unsub.clone();
          move || {
            c.lock().unwrap().at.push((p.terminated(), p.len()));
            // triggered by unsubscribe: by now the subscription is over, an item
            // emitted from inside the finalizer must not reach the subscriber.
            // (Not done for terminal triggers: emitting into a subject from inside
            // its own terminal delivery is re-entrancy nobody promises to support.)
            if flag.load(std::sync::atomic::Ordering::SeqCst) && shape != Shape::Cloned {
              again.next(V::I(99));
            }
          }
        };
        let mut sub: Option<Box<dyn FnOnce(bool)>> = Some(match shape {
          Shape::Plain => {
            let u = src.clone().$fin(mk(&calls)).actual_subscribe(probe.clone());
            Box::new(move |guard: bool| {
              if guard {
                drop(u.unsubscribe_when_dropped())
              } else {
                u.unsubscribe()
              }
            })
          }
          Shape::ThenTake1 => {
            let u = src.clone().$fin(mk(&calls)).take(1).actual_subscribe(probe.clone());
            Box::new(move |guard: bool| {
              if guard {
                drop(u.unsubscribe_when_dropped())
              } else {
                u.unsubscribe()
              }
            })
          }
          Shape::AfterTake1 => {
            let u = src.clone().take(1).$fin(mk(&calls)).actual_subscribe(probe.clone());
            Box::new(move |guard: bool| {
              if guard {
                drop(u.unsubscribe_when_dropped())
              } else {
                u.unsubscribe()
              }
            })
          }
          Shape::Twice => {
            let u = src
              .clone()
              .$fin(mk(&calls))
              .$fin(mk(&calls2))
              .actual_subscribe(probe.clone());
            Box::new(move |guard: bool| {
              if guard {
                drop(u.unsubscribe_when_dropped())
              } else {
                u.unsubscribe()
              }
            })
          }
          Shape::Never => {
            let u = observable::never()
              .map(V::from)
              .on_error_map(|e: std::convert::Infallible| -> E { match e {} })
              .$fin(mk(&calls))
              .actual_subscribe(probe.clone());
            Box::new(move |guard: bool| {
              if guard {
                drop(u.unsubscribe_when_dropped())
              } else {
                u.unsubscribe()
              }
            })
          }
          Shape::RawThenTake1 => {
            let st = stash.clone();
            let u = observable::create(move |s: $subscriber<_>| {
              *st.borrow_mut() = Some(Box::new(s) as Box<dyn RawHandle>);
            })
            .$fin(mk(&calls))
            .take(1)
            .actual_subscribe(probe.clone());
            Box::new(move |guard: bool| {
              if guard {
                drop(u.unsubscribe_when_dropped())
              } else {
                u.unsubscribe()
              }
            })
          }
          Shape::Cloned => {
            let op = src.clone().$fin(mk(&calls));
            let u1 = op.clone().actual_subscribe(probe.clone());
            let u2 = op.actual_subscribe(probe2.clone());
            Box::new(move |guard: bool| {
              if guard {
                drop(u1.unsubscribe_when_dropped());
                drop(u2.unsubscribe_when_dropped());
              } else {
                u1.unsubscribe();
                u2.unsubscribe();
              }
            })
          }
        });
        let raw_closed = false;
        let mut triggered = false;
        // ThenTake1 only: the source ended after the downstream take(1) had
        // already completed; subjects do not notify finished observers, so
        // whether the finalizer has run by now is not fixed by the statement
        let mut maybe = false;
        let mut items = 0usize;
        let mut hist: Vec<&str> = vec![];
        for _ in 0..len {
          let mut menu = if shape == Shape::Never { vec![] } else { vec!["next", "complete", "error"] };
          if shape == Shape::Never && sub.is_none() {
            break;
          }
          if sub.is_some() {
            menu.push("unsubscribe");
            menu.push("drop-guard");
          }
          let act = menu[ch.choose(menu.len())];
          ch.label(|| act.to_string());
          hist.push(act);
          world::bump_step();
          let before = calls.lock().unwrap().at.len();
          let mut terminal_trigger = false;
          match act {
            "next" => {
              if shape == Shape::RawThenTake1 {
                if let Some(h) = stash.borrow_mut().as_mut() {
                  h.raw_next(V::I(0));
                }
              } else {
                src.next(V::I(0));
              }
              items += 1;
              if shape == Shape::AfterTake1 && items == 1 && !triggered {
                triggered = true;
                terminal_trigger = true;
              }
            }
            "complete" | "error" => {
              if shape == Shape::RawThenTake1 {
                if let Some(h) = stash.borrow().as_ref() {
                  if act == "complete" {
                    h.raw_dup().raw_complete();
                  } else {
                    h.raw_dup().raw_error(E::E0);
                  }
                }
              } else if act == "complete" {
                src.clone().complete();
              } else {
                src.clone().error(E::E0);
              }
              if !triggered {
                if shape == Shape::RawThenTake1 && raw_closed {
                  // the raw handle was already consumed by an earlier terminal
                } else if shape == Shape::ThenTake1 && items > 0 {
                  maybe = true;
                } else {
                  terminal_trigger = true;
                  triggered = true;
                }
              }
            }
            "unsubscribe" | "drop-guard" => {
              in_unsub.store(true, std::sync::atomic::Ordering::SeqCst);
              (sub.take().unwrap())(act == "drop-guard");
              in_unsub.store(false, std::sync::atomic::Ordering::SeqCst);
              triggered = true;
            }
            _ => unreachable!(),
          }
          obs.checks += 1;
          let all = [(&calls, "finalizer"), (&calls2, "second finalizer")];
          let n_fin = if shape == Shape::Twice { 2 } else { 1 };
          for (c, who) in all.iter().take(n_fin) {
            let c = c.lock().unwrap();
            let n = c.at.len();
            let want = triggered as usize * if shape == Shape::Cloned { 2 } else { 1 };
            if maybe && !triggered && n <= 1 {
              continue;
            }
            if shape == Shape::Cloned && n == 1 && want == 2 {
              obs.fail(
                format!("c15:once-per-operator-not-per-subscription:{:?}", $form),
                format!("{shape:?} after [{}]: two subscriptions of clones of one finalize operator ended, the finalizer ran once", hist.join(" ")),
              );
              continue;
            }
            if n != want {
              obs.fail(
                format!(
                  "c15:{}:{:?}",
                  if n > want { "more-than-once" } else if want == 1 { "not-run" } else { "early" },
                  $form
                ),
                format!("{shape:?} after [{}]: {who} ran {n} times, expected {want}", hist.join(" ")),
              );
            }
          }
          let c = calls.lock().unwrap();
          if c.at.len() == before + 1 && terminal_trigger {
            let (had_term, _) = c.at[before];
            // with take(1) downstream the probe has completed long before
            if !had_term {
              obs.fail(
                format!("c15:before-terminal:{:?}", $form),
                format!(
                  "{shape:?} after [{}]: the finalizer ran before the terminal reached the subscriber",
                  hist.join(" ")
                ),
              );
            }
          }
          for (who, p) in [("subscriber", &probe), ("second subscriber", &probe2)] {
            if p.notes().contains(&Note::N(V::I(99))) {
              obs.fail(
                format!("c15:ran-before-teardown:{:?}", $form),
                format!(
                  "{shape:?} after [{}]: an item emitted from inside the finalizer still reached the {who}: [{}]",
                  hist.join(" "),
                  fmt_notes(&p.notes())
                ),
              );
            }
          }
          if !obs.viol.is_empty() {
            break;
          }
        }
        obs.delivered = probe.len() as u64 + calls.lock().unwrap().at.len() as u64;
        obs.note_outcome(&probe.notes());
        obs.note_outcome(&calls.lock().unwrap().at);
        obs.log(|| {
          format!("probe: [{}] finalizer calls {:?}", fmt_notes(&probe.notes()), calls.lock().unwrap().at)
        });
      })
    }
  };
}

fin_job!(job_local, Subject<'static, V, E>, finalize, Form::Local, Subscriber);
fin_job!(job_threads, SubjectThreads<V, E>, finalize_threads, Form::Threads, SubscriberThreads);

/// `source.stage.finalize(f).take(cut)` over cold sources: the stage above the
/// finalizer hands the source's terminal on although `take` below it has
/// already finished, so the callback has run exactly once when subscribe
/// returns; for a source that stays open it runs at unsubscribe, once.
fn fin_cut_job(src: crate::ast::Src, op: Option<crate::ast::Op1>, cut: usize) -> Job {
  use crate::ast::*;
  use crate::drive::*;
  let pipe = match op {
    Some(op) => Pipe::S(src.clone()).o1(op),
    None => Pipe::S(src.clone()),
  };
  Job::new(format!("{}.finalize(f).take({cut})", pipe.show()), move |_ch, obs| {
    let r = Run::prepare(1, Form::Local);
    let n = Arc::new(std::sync::atomic::AtomicUsize::new(0));
    let n2 = n.clone();
    let u = build_local(&pipe, &r.cx)
      .finalize(move || {
        n2.fetch_add(1, std::sync::atomic::Ordering::SeqCst);
      })
      .take(cut)
      .actual_subscribe(r.probe.clone());
    obs.checks += 1;
    let after_subscribe = n.load(std::sync::atomic::Ordering::SeqCst);
    u.unsubscribe();
    let after_unsubscribe = n.load(std::sync::atomic::Ordering::SeqCst);
    if let Some(exp) = crate::model::chain(&pipe, &Seq::open()) {
      let want = if exp.t == T::Open { (0, 1) } else { (1, 1) };
      if (after_subscribe, after_unsubscribe) != want {
        obs.fail(
          "c15:count-after-cold-source:Local",
          format!(
            "{}.finalize(f).take({cut}): what the finalizer observes delivers [{}]; f had run {after_subscribe} times when subscribe returned and {after_unsubscribe} times after unsubscribe (expected {want:?})",
            pipe.show(),
            fmt_notes(&exp.notes())
          ),
        );
      }
    }
    obs.delivered = r.probe.len() as u64 + 1;
    obs.note_outcome(&r.probe.notes());
    obs.note_outcome(&(after_subscribe, after_unsubscribe));
  })
}

pub fn plan(tier: Tier) -> Plan {
  let len = match tier {
    Tier::Quick => 8,
    Tier::Thorough => 12,
  };
  let mut jobs = vec![];
  for shape in [
    Shape::Plain,
    Shape::ThenTake1,
    Shape::AfterTake1,
    Shape::Twice,
    Shape::Cloned,
    Shape::Never,
    Shape::RawThenTake1,
  ] {
    jobs.push(job_local(shape, len));
    jobs.push(job_threads(shape, len));
  }
  {
    use crate::ast::{NoteSpec::*, Src};
    for src in [
      Src::Iter(vec![0, 1, 2]),
      Src::Of(1),
      Src::Create(vec![N(0), N(1), C]),
      Src::Create(vec![N(0), N(1), Err(E::E1)]),
      Src::Create(vec![N(0), N(1)]),
      Src::Empty,
      Src::Never,
      Src::Throw(E::E1),
      Src::CreatePolling(3),
    ] {
      for cut in [0usize, 1, 5] {
        jobs.push(fin_cut_job(src.clone(), None, cut));
        for op in crate::catalogue::list_ops(false) {
          jobs.push(fin_cut_job(src.clone(), Some(op), cut));
        }
      }
    }
  }
  Plan {
    jobs,
    finish: Finish {
      prop: "C15".into(),
      tier: tier_name(tier),
      engine: "E1 opseq".into(),
      rule: "every sequence up to the length bound over {next, complete, error (each through a fresh clone of the source handle), unsubscribe, dropping an unsubscribe_when_dropped guard} on subject.finalize(f), .finalize(f).take(1), .take(1).finalize(f), two stacked finalizers, a cloned finalize operator subscribed twice, never().finalize(f) and create(raw subscriber).finalize(f).take(1), local and _threads; plus cold sources, alone and under every catalogue stage with a list model, with .finalize(f).take(0|1|5) below (the terminal reaches the finalizer although take has finished): the invocation counter is 0 before the first trigger, exactly 1 when the triggering call returns and for ever after; when the trigger is a terminal it has reached the subscriber before the callback runs; non-trivial = something was delivered or the finalizer ran".into(),
      bounds: json!({"sequence_len": len, "shapes": 7, "forms": 2}),
      assumptions: vec![],
    },
  }
}
