//! C15 — finalize runs its callback exactly once per subscription
//! (sequential part; the terminal-vs-unsubscribe race is explored by E2).
use super::{tier_name, Plan, Tier};
use crate::drive::Form;
use crate::probe::Probe;
use crate::report::{Finish, Job};
use crate::val::*;
use crate::world;
use rxrust::prelude::*;
use serde_json::json;
use std::sync::{Arc, Mutex};

#[derive(Clone, Copy, Debug, PartialEq, Eq)]
enum Shape {
  /// subject.finalize(f)
  Plain,
  /// subject.finalize(f).take(1): downstream ends early, finalize does not
  ThenTake1,
  /// subject.take(1).finalize(f): upstream operator ends early
  AfterTake1,
  /// subject.finalize(f).finalize(g): two finalizers, each exactly once
  Twice,
  /// one finalize operator value, cloned and subscribed twice: once per subscription
  Cloned,
}

#[derive(Default)]
struct Calls {
  /// (probe had a terminal at call time, probe length at call time)
  at: Vec<(bool, usize)>,
}

macro_rules! fin_job {
  ($fname:ident, $subj:ty, $fin:ident, $form:expr) => {
    fn $fname(shape: Shape, len: usize) -> Job {
      Job::new(format!("{:?} finalize {shape:?} L{len}", $form), move |ch, obs| {
        let _w = world::World::new();
        let mut src = <$subj>::default();
        let probe = Probe::new();
        let probe2 = Probe::new();
        let calls: Arc<Mutex<Calls>> = Arc::new(Mutex::new(Calls::default()));
        let calls2: Arc<Mutex<Calls>> = Arc::new(Mutex::new(Calls::default()));
        // set by the harness while it is inside unsubscribe()
        let in_unsub = Arc::new(std::sync::atomic::AtomicBool::new(false));
        let mk = |c: &Arc<Mutex<Calls>>| {
          let (c, p) = (c.clone(), probe.clone());
          let mut again = src.clone();
          let flag = in_unsub.clone();
          move || {
            c.lock().unwrap().at.push((p.terminated(), p.len()));
            // triggered by unsubscribe: by now the subscription is over, an item
            // emitted from inside the finalizer must not reach the subscriber.
            // (Not done for terminal triggers: emitting into a subject from inside
            // its own terminal delivery is re-entrancy nobody promises to support.)
            if flag.load(std::sync::atomic::Ordering::SeqCst) && shape != Shape::Cloned {
              again.next(V::I(99));
            }
          }
        };
        let mut sub: Option<Box<dyn FnOnce()>> = Some(match shape {
          Shape::Plain => {
            let u = src.clone().$fin(mk(&calls)).actual_subscribe(probe.clone());
            Box::new(move || u.unsubscribe())
          }
          Shape::ThenTake1 => {
            let u = src.clone().$fin(mk(&calls)).take(1).actual_subscribe(probe.clone());
            Box::new(move || u.unsubscribe())
          }
          Shape::AfterTake1 => {
            let u = src.clone().take(1).$fin(mk(&calls)).actual_subscribe(probe.clone());
            Box::new(move || u.unsubscribe())
          }
          Shape::Twice => {
            let u = src
              .clone()
              .$fin(mk(&calls))
              .$fin(mk(&calls2))
              .actual_subscribe(probe.clone());
            Box::new(move || u.unsubscribe())
          }
          Shape::Cloned => {
            let op = src.clone().$fin(mk(&calls));
            let u1 = op.clone().actual_subscribe(probe.clone());
            let u2 = op.actual_subscribe(probe2.clone());
            Box::new(move || {
              u1.unsubscribe();
              u2.unsubscribe();
            })
          }
        });
        let mut triggered = false;
        // ThenTake1 only: the source ended after the downstream take(1) had
        // already completed; subjects do not notify finished observers, so
        // whether the finalizer has run by now is not fixed by the statement
        let mut maybe = false;
        let mut items = 0usize;
        let mut hist: Vec<&str> = vec![];
        for _ in 0..len {
          let mut menu = vec!["next", "complete", "error"];
          if sub.is_some() {
            menu.push("unsubscribe");
          }
          let act = menu[ch.choose(menu.len())];
          ch.label(|| act.to_string());
          hist.push(act);
          world::bump_step();
          let before = calls.lock().unwrap().at.len();
          let mut terminal_trigger = false;
          match act {
            "next" => {
              src.next(V::I(0));
              items += 1;
              if shape == Shape::AfterTake1 && items == 1 && !triggered {
                triggered = true;
                terminal_trigger = true;
              }
            }
            "complete" | "error" => {
              if act == "complete" {
                src.clone().complete();
              } else {
                src.clone().error(E::E0);
              }
              if !triggered {
                if shape == Shape::ThenTake1 && items > 0 {
                  maybe = true;
                } else {
                  terminal_trigger = true;
                  triggered = true;
                }
              }
            }
            "unsubscribe" => {
              in_unsub.store(true, std::sync::atomic::Ordering::SeqCst);
              (sub.take().unwrap())();
              in_unsub.store(false, std::sync::atomic::Ordering::SeqCst);
              triggered = true;
            }
            _ => unreachable!(),
          }
          obs.checks += 1;
          let all = [(&calls, "finalizer"), (&calls2, "second finalizer")];
          let n_fin = if shape == Shape::Twice { 2 } else { 1 };
          for (c, who) in all.iter().take(n_fin) {
            let c = c.lock().unwrap();
            let n = c.at.len();
            let want = triggered as usize * if shape == Shape::Cloned { 2 } else { 1 };
            if maybe && !triggered && n <= 1 {
              continue;
            }
            if shape == Shape::Cloned && n == 1 && want == 2 {
              obs.fail(
                format!("c15:once-per-operator-not-per-subscription:{:?}", $form),
                format!("{shape:?} after [{}]: two subscriptions of clones of one finalize operator ended, the finalizer ran once", hist.join(" ")),
              );
              continue;
            }
            if n != want {
              obs.fail(
                format!(
                  "c15:{}:{:?}",
                  if n > want { "more-than-once" } else if want == 1 { "not-run" } else { "early" },
                  $form
                ),
                format!("{shape:?} after [{}]: {who} ran {n} times, expected {want}", hist.join(" ")),
              );
            }
          }
          let c = calls.lock().unwrap();
          if c.at.len() == before + 1 && terminal_trigger {
            let (had_term, _) = c.at[before];
            // with take(1) downstream the probe has completed long before
            if !had_term {
              obs.fail(
                format!("c15:before-terminal:{:?}", $form),
                format!(
                  "{shape:?} after [{}]: the finalizer ran before the terminal reached the subscriber",
                  hist.join(" ")
                ),
              );
            }
          }
          for (who, p) in [("subscriber", &probe), ("second subscriber", &probe2)] {
            if p.notes().contains(&Note::N(V::I(99))) {
              obs.fail(
                format!("c15:ran-before-teardown:{:?}", $form),
                format!(
                  "{shape:?} after [{}]: an item emitted from inside the finalizer still reached the {who}: [{}]",
                  hist.join(" "),
                  fmt_notes(&p.notes())
                ),
              );
            }
          }
          if !obs.viol.is_empty() {
            break;
          }
        }
        obs.delivered = probe.len() as u64 + calls.lock().unwrap().at.len() as u64;
        obs.note_outcome(&probe.notes());
        obs.note_outcome(&calls.lock().unwrap().at);
        obs.log(|| {
          format!("probe: [{}] finalizer calls {:?}", fmt_notes(&probe.notes()), calls.lock().unwrap().at)
        });
      })
    }
  };
}

fin_job!(job_local, Subject<'static, V, E>, finalize, Form::Local);
fin_job!(job_threads, SubjectThreads<V, E>, finalize_threads, Form::Threads);

pub fn plan(tier: Tier) -> Plan {
  let len = match tier {
    Tier::Quick => 8,
    Tier::Thorough => 10,
  };
  let mut jobs = vec![];
  for shape in [Shape::Plain, Shape::ThenTake1, Shape::AfterTake1, Shape::Twice, Shape::Cloned] {
    jobs.push(job_local(shape, len));
    jobs.push(job_threads(shape, len));
  }
  Plan {
    jobs,
    finish: Finish {
      prop: "C15".into(),
      tier: tier_name(tier),
      engine: "E1 opseq".into(),
      rule: "every sequence up to the length bound over {next, complete, error (each through a fresh clone of the source handle), unsubscribe} on subject.finalize(f), .finalize(f).take(1), .take(1).finalize(f) and two stacked finalizers, local and _threads: the invocation counter is 0 before the first trigger, exactly 1 when the triggering call returns and for ever after; when the trigger is a terminal it has reached the subscriber before the callback runs; non-trivial = something was delivered or the finalizer ran".into(),
      bounds: json!({"sequence_len": len, "shapes": 5, "forms": 2}),
      assumptions: vec![],
    },
  }
}
