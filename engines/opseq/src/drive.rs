//! Shared harness pieces: building + subscribing a pipeline in either form and
//! delivering explorer-chosen events to its hot inputs.
use crate::ast::*;
use crate::probe::Probe;
use crate::val::*;
use crate::world::{self, World};
use rxrust::prelude::*;

#[derive(Clone, Copy, PartialEq, Eq, Debug)]
pub enum Form {
  Local,
  Threads,
}

pub enum Sub {
  L(BoxSubscription<'static>),
  T(BoxSubscriptionThreads),
  None,
}

impl Sub {
  pub fn is_closed(&self) -> bool {
    match self {
      Sub::L(s) => s.is_closed(),
      Sub::T(s) => s.is_closed(),
      Sub::None => true,
    }
  }
  pub fn unsubscribe(&mut self) {
    match std::mem::replace(self, Sub::None) {
      Sub::L(s) => s.unsubscribe(),
      Sub::T(s) => s.unsubscribe(),
      Sub::None => {}
    }
  }
  /// drop a guard made by `unsubscribe_when_dropped`
  pub fn drop_guard(&mut self) {
    match std::mem::replace(self, Sub::None) {
      Sub::L(s) => drop(s.unsubscribe_when_dropped()),
      Sub::T(s) => drop(s.unsubscribe_when_dropped()),
      Sub::None => {}
    }
  }
  /// the guard is dropped because its scope unwinds (a caught panic): still a drop
  pub fn drop_guard_unwinding(&mut self) {
    let me = std::mem::replace(self, Sub::None);
    let _ = std::panic::catch_unwind(std::panic::AssertUnwindSafe(move || {
      let mut me = me;
      let _g: Box<dyn std::any::Any> = match std::mem::replace(&mut me, Sub::None) {
        Sub::L(s) => Box::new(s.unsubscribe_when_dropped()),
        Sub::T(s) => Box::new(s.unsubscribe_when_dropped()),
        Sub::None => Box::new(()),
      };
      // unwinds without going through the panic hook
      std::panic::resume_unwind(Box::new("scope unwinds"));
    }));
  }
  pub fn is_some(&self) -> bool {
    !matches!(self, Sub::None)
  }
}

pub struct Run {
  pub world: World,
  pub cx: Cx,
  pub form: Form,
  pub probe: Probe,
  pub sub: Sub,
}

/// Pipelines that are still open when an execution ends are reference cycles (a
/// subject holds its subscribers, their operators hold subscriptions that hold
/// the subscribers' cells) and would be leaked, a few hundred bytes per
/// execution — tens of gigabytes over a thorough run. Nothing is observed any
/// more at this point: unsubscribe everything. (A panic during this tear-down is
/// not reported: the histories that contain an unsubscription are C02's.)
impl Drop for Run {
  fn drop(&mut self) {
    if std::thread::panicking() {
      return;
    }
    let _ = std::panic::catch_unwind(std::panic::AssertUnwindSafe(|| {
      self.sub.unsubscribe();
      for s in self.cx.hot_l.drain(..) {
        s.unsubscribe();
      }
      for s in self.cx.hot_t.drain(..) {
        s.unsubscribe();
      }
      for r in &self.cx.raw_l {
        r.borrow_mut().clear();
      }
      for r in &self.cx.raw_t {
        if let Ok(mut g) = r.lock() {
          g.clear();
        }
      }
    }));
  }
}

impl Run {
  /// Build the world and context only (nothing subscribed yet).
  pub fn prepare(n_inputs: usize, form: Form) -> Run {
    let world = World::new();
    let cx = Cx::new(n_inputs.max(1), world.sched.clone());
    Run { world, cx, form, probe: Probe::new(), sub: Sub::None }
  }

  pub fn subscribe(&mut self, pipe: &Pipe) {
    self.sub = self.subscribe_probe(pipe, self.probe.clone());
  }

  pub fn subscribe_probe(&mut self, pipe: &Pipe, probe: Probe) -> Sub {
    match self.form {
      Form::Local => Sub::L(build_local(pipe, &self.cx).actual_subscribe(probe)),
      Form::Threads => Sub::T(build_threads(pipe, &self.cx).actual_subscribe(probe)),
    }
  }

  /// subscribe the way most users do: `on_error(..)`, `on_complete(..)` and
  /// `subscribe(next)` closures, all writing into one log. `error_first`
  /// selects the order in which the two terminal handlers are attached.
  pub fn subscribe_callbacks(&mut self, pipe: &Pipe, probe: Probe, error_first: bool) -> Sub {
    let (p1, p2, p3) = (probe.clone(), probe.clone(), probe);
    let on_e = move |e: E| p1.push_note(Note::Err(e));
    let on_c = move || p2.push_note(Note::C);
    let on_n = move |v: V| p3.push_note(Note::N(v));
    match self.form {
      Form::Local => {
        let op = build_local(pipe, &self.cx);
        if error_first {
          Sub::L(BoxSubscription::new(op.on_error(on_e).on_complete(on_c).subscribe(on_n)))
        } else {
          Sub::L(BoxSubscription::new(op.on_complete(on_c).on_error(on_e).subscribe(on_n)))
        }
      }
      Form::Threads => {
        let op = build_threads(pipe, &self.cx);
        if error_first {
          Sub::T(BoxSubscriptionThreads::new(op.on_error(on_e).on_complete(on_c).subscribe(on_n)))
        } else {
          Sub::T(BoxSubscriptionThreads::new(op.on_complete(on_c).on_error(on_e).subscribe(on_n)))
        }
      }
    }
  }

  pub fn start(pipe: &Pipe, form: Form) -> Run {
    let mut r = Run::prepare(pipe.n_inputs(), form);
    r.subscribe(pipe);
    r
  }

  /// deliver one notification to hot input `i` (both the subject and the raw
  /// `create` subscribers registered for that index), through a fresh clone of
  /// the handle each time
  pub fn emit(&mut self, i: usize, n: &Note) {
    world::bump_step();
    match self.form {
      Form::Local => {
        let mut s = self.cx.hot_l[i].clone();
        let raws: Vec<_> = self.cx.raw_l[i].borrow().iter().cloned().collect();
        match n {
          Note::N(v) => {
            s.next(v.clone());
            for mut r in raws {
              r.next(v.clone());
            }
          }
          Note::Err(e) => {
            s.error(*e);
            for r in raws {
              r.error(*e);
            }
          }
          Note::C => {
            s.complete();
            for r in raws {
              r.complete();
            }
          }
        }
      }
      Form::Threads => {
        let mut s = self.cx.hot_t[i].clone();
        let raws: Vec<_> = self.cx.raw_t[i].lock().unwrap().iter().cloned().collect();
        match n {
          Note::N(v) => {
            s.next(v.clone());
            for mut r in raws {
              r.next(v.clone());
            }
          }
          Note::Err(e) => {
            s.error(*e);
            for r in raws {
              r.error(*e);
            }
          }
          Note::C => {
            s.complete();
            for r in raws {
              r.complete();
            }
          }
        }
      }
    }
  }

  /// FIFO-prompt executor step after an environment action.
  pub fn drain(&mut self) -> bool {
    self.world.drain_fifo(10_000)
  }

  pub fn tick(&mut self) -> bool {
    world::bump_step();
    self.world.advance(1);
    self.drain()
  }
}

/// per-input event alphabet: next(0) next(1) next(2) complete error(E0)
pub const ALPHA: usize = 5;
pub fn alpha(k: usize) -> Note {
  match k {
    0 => Note::N(V::I(0)),
    1 => Note::N(V::I(1)),
    2 => Note::N(V::I(2)),
    3 => Note::C,
    _ => Note::Err(E::E0),
  }
}
/// reduced alphabet: next(0) next(1) complete error(E0)
pub const ALPHA4: usize = 4;
pub fn alpha4(k: usize) -> Note {
  match k {
    0 => Note::N(V::I(0)),
    1 => Note::N(V::I(1)),
    2 => Note::C,
    _ => Note::Err(E::E0),
  }
}

/// A subscriber that stops being interested after `k` notifications: from then
/// on `is_finished()` answers true (what `take(k)` and the other early-ending
/// operators answer upstream once they have completed downstream).
#[derive(Clone)]
pub struct Sated {
  pub probe: crate::probe::Probe,
  pub k: usize,
}

impl Observer<V, E> for Sated {
  fn next(&mut self, v: V) {
    self.probe.next(v)
  }
  fn error(self, e: E) {
    self.probe.error(e)
  }
  fn complete(self) {
    self.probe.complete()
  }
  fn is_finished(&self) -> bool {
    self.probe.len() >= self.k
  }
}

