//! Recording probe observer: sees exactly what a user's subscriber sees.
use crate::val::*;
use crate::world;
use rxrust::prelude::Observer;
use std::sync::{Arc, Mutex};

#[derive(Clone, Debug)]
pub struct Rec {
  pub note: Note,
  pub step: u64,
  pub vt: u64,
  /// (iterator/stream pulls, tap calls) at delivery time, when the probe was
  /// given the counters
  pub pulls: usize,
  pub taps: usize,
}

/// Callback run inside `next` (re-entrancy scenarios). Single-threaded engine:
/// the `Send` is a formality needed by the `_threads` operator forms.
pub struct Hook(pub Box<dyn FnMut(&V)>);
unsafe impl Send for Hook {}

#[derive(Clone)]
pub struct Probe {
  pub log: Arc<Mutex<Vec<Rec>>>,
  pub hook: Option<Arc<Mutex<Hook>>>,
  pub ctr: Option<crate::ast::Counters>,
}

impl Probe {
  pub fn new() -> Probe {
    Probe { log: Arc::new(Mutex::new(Vec::new())), hook: None, ctr: None }
  }
  pub fn with_hook(f: impl FnMut(&V) + 'static) -> Probe {
    Probe {
      log: Arc::new(Mutex::new(Vec::new())),
      hook: Some(Arc::new(Mutex::new(Hook(Box::new(f))))),
      ctr: None,
    }
  }
  pub fn with_counters(c: &crate::ast::Counters) -> Probe {
    Probe { log: Arc::new(Mutex::new(Vec::new())), hook: None, ctr: Some(c.clone()) }
  }
  /// record a notification (used by callback-assembled subscribers)
  pub fn push_note(&self, note: Note) {
    self.push(note)
  }
  fn push(&self, note: Note) {
    let (pulls, taps) = match &self.ctr {
      Some(c) => (
        crate::ast::Counters::get(&c.pulls),
        crate::ast::Counters::get(&c.taps),
      ),
      None => (0, 0),
    };
    self.log.lock().unwrap().push(Rec {
      note,
      step: world::step(),
      vt: world::now(),
      pulls,
      taps,
    });
  }
  pub fn notes(&self) -> Vec<Note> {
    self.log.lock().unwrap().iter().map(|r| r.note.clone()).collect()
  }
  pub fn recs(&self) -> Vec<Rec> {
    self.log.lock().unwrap().clone()
  }
  pub fn len(&self) -> usize {
    self.log.lock().unwrap().len()
  }
  pub fn seq(&self) -> Seq {
    Seq::from_notes(&self.notes())
  }
  /// `next* (error|complete)?` and nothing after the terminal.
  pub fn grammar_ok(&self) -> bool {
    let l = self.log.lock().unwrap();
    match l.iter().position(|r| r.note.is_terminal()) {
      None => true,
      Some(i) => i + 1 == l.len(),
    }
  }
  pub fn terminated(&self) -> bool {
    self.log.lock().unwrap().iter().any(|r| r.note.is_terminal())
  }
}

impl Default for Probe {
  fn default() -> Self {
    Probe::new()
  }
}

impl Observer<V, E> for Probe {
  fn next(&mut self, v: V) {
    self.push(Note::N(v.clone()));
    if let Some(h) = &self.hook {
      // a re-entrant delivery into the same probe must not dead-lock the
      // harness: the hook is skipped while it is already running
      if let Ok(mut g) = h.try_lock() {
        (g.0)(&v);
      }
    }
  }
  fn error(self, e: E) {
    self.push(Note::Err(e));
  }
  fn complete(self) {
    self.push(Note::C);
  }
  fn is_finished(&self) -> bool {
    false
  }
}
