//! Pipeline AST, operator catalogue and the run-time builders that turn an AST
//! into a real rxRust pipeline (`BoxOp` / `CloneableBoxOp` / `BoxOpThreads`).
use crate::val::*;
use crate::world::{ticks, Gated, GatedSend};
use rxrust::ops::box_it::{BoxOp, BoxOpThreads, CloneableBoxOp};
use rxrust::ops::throttle::ThrottleEdge;
use rxrust::prelude::*;
use std::cell::RefCell;
use std::convert::Infallible;
use std::rc::Rc;
use std::sync::atomic::{AtomicUsize, Ordering};
use std::sync::{Arc, Mutex};

pub type LOp = BoxOp<'static, V, E>;
pub type COp = CloneableBoxOp<'static, V, E>;
pub type TOp = BoxOpThreads<V, E>;
pub type LSubj = Subject<'static, V, E>;
pub type TSubj = SubjectThreads<V, E>;

// ------------------------------------------------------------ parameters

#[derive(Clone, Copy, Debug, PartialEq, Eq, Hash)]
pub enum P {
  Lt1,
  Lt2,
  Even,
}
impl P {
  pub fn ev(self, v: &V) -> bool {
    let n = v.num();
    match self {
      P::Lt1 => n < 1,
      P::Lt2 => n < 2,
      P::Even => n % 2 == 0,
    }
  }
  pub const ALL: [P; 3] = [P::Lt1, P::Lt2, P::Even];
}

#[derive(Clone, Copy, Debug, PartialEq, Eq, Hash)]
pub enum K {
  Const,
  Id,
  Mod2,
}
impl K {
  pub fn ev(self, v: &V) -> V {
    match self {
      K::Const => V::U,
      K::Id => v.clone(),
      K::Mod2 => V::I(v.num().rem_euclid(2)),
    }
  }
  pub const ALL: [K; 3] = [K::Const, K::Id, K::Mod2];
}

#[derive(Clone, Copy, Debug, PartialEq, Eq, Hash)]
pub enum Edge {
  Leading,
  Tailing,
  All,
}
impl Edge {
  pub fn get(self) -> ThrottleEdge {
    match self {
      Edge::Leading => ThrottleEdge::leading(),
      Edge::Tailing => ThrottleEdge::tailing(),
      Edge::All => ThrottleEdge::all(),
    }
  }
  pub fn leading(self) -> bool {
    !matches!(self, Edge::Tailing)
  }
  pub fn tailing(self) -> bool {
    !matches!(self, Edge::Leading)
  }
}

pub fn throttle_by_window(v: &V) -> u64 {
  1 + (v.num().rem_euclid(2)) as u64
}
/// window (ticks) chosen by the `n`-th call (0-based) of the stateful selector
pub fn throttle_calls_window(n: usize) -> u64 {
  if n < 2 {
    1
  } else {
    3
  }
}
pub fn inc(v: V) -> V {
  V::I(v.num() + 1)
}
pub fn avg_out(x: f64) -> V {
  V::I((x * 1000.0).round() as i64)
}

// ------------------------------------------------------------ AST

#[derive(Clone, Debug, PartialEq, Eq, Hash)]
pub enum Op1 {
  Map,
  MapTo(i64),
  Filter(P),
  FilterMap(P),
  Tap,
  /// `timestamp()` followed by a projection back to the item
  Timestamp,
  Take(usize),
  Skip(usize),
  TakeWhile(P),
  TakeWhileIncl(P),
  SkipWhile(P),
  TakeLast(usize),
  SkipLast(usize),
  First,
  FirstOr(i64),
  Last,
  LastOr(i64),
  ElementAt(usize),
  IgnoreElements,
  StartWith(Vec<i64>),
  DefaultIfEmpty(i64),
  Scan,
  ScanInitial(i64),
  Reduce,
  ReduceInitial(i64),
  Count,
  Sum,
  Min,
  Max,
  Average,
  Distinct,
  DistinctKey(K),
  DistinctUntilChanged,
  DistinctUntilKeyChanged(K),
  Pairwise,
  BufferWithCount(usize),
  Contains(i64),
  All(P),
  Collect,
  OnErrorMap,
  /// `on_complete(f)` in the middle of a pipeline (f counted with the finalizers)
  OnComplete,
  /// `on_error(f)` in the middle of a pipeline: the error ends in `f`, nothing is
  /// handed on
  OnError,
  // ---- stateful user closures: the result depends on how often the closure
  // ---- has been called (0-based call index k)
  /// map(v => v + 10k)
  MapIdx,
  /// filter: keeps the items for which k is even
  FilterIdx,
  /// take_while: true for the first n calls
  TakeWhileIdx(usize),
  /// skip_while: true for the first n calls
  SkipWhileIdx(usize),
  /// scan(acc, v => acc + v + k)
  ScanIdx,
  // ---- no exact single-input list model below this line
  Finalize,
  BoxIt,
  Share,
  GroupByFlatten(K),
  Flat(FlatKind, Vec<InnerSpec>),
  // ---- scheduler-using
  Delay(u64),
  /// delay(n microseconds): shorter than a virtual tick, visible in the timer requests
  DelayMicros(u64),
  /// delay_at(now + off ticks)
  DelayAt(i64),
  DelaySubscription(u64),
  DelaySubscriptionAt(i64),
  ObserveOn,
  SubscribeOn,
  Debounce(u64),
  ThrottleTime(u64, Edge),
  /// throttle with a per-item window: odd items 2 ticks, even items 1 tick
  ThrottleBy(Edge),
  /// throttle whose selector is stateful: the 1st and 2nd call give a 1-tick
  /// window, every later call a 3-tick window
  ThrottleCalls(Edge),
  BufferWithTime(u64),
  BufferWithCountAndTime(usize, u64),
  SampleInterval(u64),
  TakeUntilTimer(u64),
}

#[derive(Clone, Copy, Debug, PartialEq, Eq, Hash)]
pub enum FlatKind {
  MergeAll(usize),
  ConcatAll,
  Flatten,
  FlatMap,
  ConcatMap,
}

impl FlatKind {
  pub fn limit(self) -> usize {
    match self {
      FlatKind::MergeAll(n) => n,
      FlatKind::ConcatAll | FlatKind::ConcatMap => 1,
      FlatKind::Flatten | FlatKind::FlatMap => usize::MAX,
    }
  }
}

/// inner observable selected by an outer item `v` (index `v.num() mod len`)
#[derive(Clone, Debug, PartialEq, Eq, Hash)]
pub enum InnerSpec {
  Cold(Vec<NoteSpec>),
  Hot(usize),
  /// `interval(period)` on the world's scheduler (counted by the tap counter)
  Ticker(u64),
}

/// script element (kept `Eq + Hash` friendly)
#[derive(Clone, Copy, Debug, PartialEq, Eq, Hash)]
pub enum NoteSpec {
  N(i64),
  Err(E),
  C,
}
impl NoteSpec {
  pub fn note(self) -> Note {
    match self {
      NoteSpec::N(n) => Note::N(V::I(n)),
      NoteSpec::Err(e) => Note::Err(e),
      NoteSpec::C => Note::C,
    }
  }
}

#[derive(Clone, Copy, Debug, PartialEq, Eq, Hash)]
pub enum Op2 {
  Merge,
  Zip,
  CombineLatest,
  WithLatestFrom,
  TakeUntil,
  SkipUntil,
  Sample,
  Buffer,
}
impl Op2 {
  pub const ALL: [Op2; 8] = [
    Op2::Merge,
    Op2::Zip,
    Op2::CombineLatest,
    Op2::WithLatestFrom,
    Op2::TakeUntil,
    Op2::SkipUntil,
    Op2::Sample,
    Op2::Buffer,
  ];
}

#[derive(Clone, Debug, PartialEq, Eq, Hash)]
pub enum Src {
  /// hot subject `i`, driven by the explorer
  Hot(usize),
  /// `create()` whose subscriber handle is stashed and driven by the explorer
  Raw(usize),
  /// like `Raw`, but the producer emits the item 9 inside the subscription call
  /// before it keeps its subscriber for later
  RawEager(usize),
  /// `from_iter(items)` (always completes)
  Iter(Vec<i64>),
  /// `create(|s| script)` emitting a script synchronously at subscription
  Create(Vec<NoteSpec>),
  Of(i64),
  OfFn(i64),
  /// `create` whose producer asks its subscriber `is_finished()` before every
  /// item (each item produced counts as a pull), then completes
  CreatePolling(usize),
  /// `from_iter` over a collection whose `IntoIterator::into_iter` is counted
  /// (as a source closure call): it must run at subscription, once each
  IntoIter(Vec<i64>),
  Start(i64),
  OfOption(Option<i64>),
  OfResult(Result<i64, E>),
  Repeat(i64, usize),
  Empty,
  Never,
  Throw(E),
  Defer(Box<Src>),
  Interval(u64),
  IntervalAt(i64, u64),
  Timer(i64, u64),
  TimerAt(i64, i64),
  /// from_stream over an always-ready counting stream of `n` items
  StreamCount(usize),
  /// `from_stream_result` over the same poll-counting stream (every item `Ok`)
  StreamResultCount(usize),
  /// from_iter(0..n) over a pull-counting iterator
  IterCount(usize),
  /// from_future over a cloneable future that counts its runs (`src_calls`)
  FromFuture(i64),
  FromFutureResult(Result<i64, E>),
}

#[derive(Clone, Debug, PartialEq, Eq, Hash)]
pub enum Pipe {
  S(Src),
  O1(Op1, Box<Pipe>),
  O2(Op2, Box<Pipe>, Box<Pipe>),
}

impl Pipe {
  pub fn o1(self, op: Op1) -> Pipe {
    Pipe::O1(op, Box::new(self))
  }
  pub fn o2(self, op: Op2, b: Pipe) -> Pipe {
    Pipe::O2(op, Box::new(self), Box::new(b))
  }
  pub fn hot(i: usize) -> Pipe {
    Pipe::S(Src::Hot(i))
  }
  pub fn depth(&self) -> usize {
    match self {
      Pipe::S(_) => 0,
      Pipe::O1(_, p) => 1 + p.depth(),
      Pipe::O2(_, a, b) => 1 + a.depth().max(b.depth()),
    }
  }
  /// highest hot/raw input index + 1
  pub fn n_inputs(&self) -> usize {
    match self {
      Pipe::S(Src::Hot(i)) | Pipe::S(Src::Raw(i)) | Pipe::S(Src::RawEager(i)) => i + 1,
      Pipe::S(Src::Defer(inner)) => Pipe::S((**inner).clone()).n_inputs(),
      Pipe::S(_) => 0,
      Pipe::O1(Op1::Flat(_, inners), p) => {
        let m = inners
          .iter()
          .map(|s| match s {
            InnerSpec::Hot(i) => i + 1,
            _ => 0,
          })
          .max()
          .unwrap_or(0);
        m.max(p.n_inputs())
      }
      Pipe::O1(_, p) => p.n_inputs(),
      Pipe::O2(_, a, b) => a.n_inputs().max(b.n_inputs()),
    }
  }
  pub fn uses_time(&self) -> bool {
    match self {
      Pipe::S(Src::Defer(inner)) => Pipe::S((**inner).clone()).uses_time(),
      Pipe::S(s) => matches!(
        s,
        Src::Interval(_)
          | Src::IntervalAt(..)
          | Src::Timer(..)
          | Src::TimerAt(..)
          | Src::StreamCount(_)
          | Src::StreamResultCount(_)
          | Src::FromFuture(_)
          | Src::FromFutureResult(_)
      ),
      Pipe::O1(op, p) => op.uses_time() || p.uses_time(),
      Pipe::O2(_, a, b) => a.uses_time() || b.uses_time(),
    }
  }
  pub fn any_op1(&self, f: &dyn Fn(&Op1) -> bool) -> bool {
    match self {
      Pipe::S(_) => false,
      Pipe::O1(op, p) => f(op) || p.any_op1(f),
      Pipe::O2(_, a, b) => a.any_op1(f) || b.any_op1(f),
    }
  }
  pub fn any_op2(&self, f: &dyn Fn(Op2) -> bool) -> bool {
    match self {
      Pipe::S(_) => false,
      Pipe::O1(_, p) => p.any_op2(f),
      Pipe::O2(op, a, b) => f(*op) || a.any_op2(f) || b.any_op2(f),
    }
  }
  pub fn any_src(&self, f: &dyn Fn(&Src) -> bool) -> bool {
    match self {
      Pipe::S(s) => f(s),
      Pipe::O1(_, p) => p.any_src(f),
      Pipe::O2(_, a, b) => a.any_src(f) || b.any_src(f),
    }
  }
  /// compact text form used in reports and replay files
  pub fn show(&self) -> String {
    match self {
      Pipe::S(s) => format!("{s:?}"),
      Pipe::O1(op, p) => format!("{}.{:?}", p.show(), op),
      Pipe::O2(op, a, b) => format!("{:?}({}, {})", op, a.show(), b.show()),
    }
  }
}

impl Op1 {
  pub fn uses_time(&self) -> bool {
    if let Op1::Flat(_, inners) = self {
      if inners.iter().any(|i| matches!(i, InnerSpec::Ticker(_))) {
        return true;
      }
    }
    matches!(
      self,
      Op1::Delay(_)
        | Op1::DelayMicros(_)
        | Op1::DelayAt(_)
        | Op1::DelaySubscriptionAt(_)
        | Op1::DelaySubscription(_)
        | Op1::ObserveOn
        | Op1::SubscribeOn
        | Op1::Debounce(_)
        | Op1::ThrottleTime(..)
        | Op1::ThrottleBy(_)
        | Op1::ThrottleCalls(_)
        | Op1::BufferWithTime(_)
        | Op1::BufferWithCountAndTime(..)
        | Op1::SampleInterval(_)
        | Op1::TakeUntilTimer(_)
    )
  }
  /// has an exact list model (Appendix B of DESIGN.md)
  pub fn has_list_model(&self) -> bool {
    !self.uses_time()
      && !matches!(
        self,
        Op1::Finalize | Op1::BoxIt | Op1::Share | Op1::GroupByFlatten(_) | Op1::Flat(..)
      )
  }
  pub fn name(&self) -> &'static str {
    match self {
      Op1::Map => "map",
      Op1::MapTo(_) => "map_to",
      Op1::Filter(_) => "filter",
      Op1::FilterMap(_) => "filter_map",
      Op1::Tap => "tap",
      Op1::Timestamp => "timestamp",
      Op1::Take(_) => "take",
      Op1::Skip(_) => "skip",
      Op1::TakeWhile(_) => "take_while",
      Op1::TakeWhileIncl(_) => "take_while_inclusive",
      Op1::SkipWhile(_) => "skip_while",
      Op1::TakeLast(_) => "take_last",
      Op1::SkipLast(_) => "skip_last",
      Op1::First => "first",
      Op1::FirstOr(_) => "first_or",
      Op1::Last => "last",
      Op1::LastOr(_) => "last_or",
      Op1::ElementAt(_) => "element_at",
      Op1::IgnoreElements => "ignore_elements",
      Op1::StartWith(_) => "start_with",
      Op1::DefaultIfEmpty(_) => "default_if_empty",
      Op1::Scan => "scan",
      Op1::ScanInitial(_) => "scan_initial",
      Op1::Reduce => "reduce",
      Op1::ReduceInitial(_) => "reduce_initial",
      Op1::Count => "count",
      Op1::Sum => "sum",
      Op1::Min => "min",
      Op1::Max => "max",
      Op1::Average => "average",
      Op1::Distinct => "distinct",
      Op1::DistinctKey(_) => "distinct_key",
      Op1::DistinctUntilChanged => "distinct_until_changed",
      Op1::DistinctUntilKeyChanged(_) => "distinct_until_key_changed",
      Op1::Pairwise => "pairwise",
      Op1::BufferWithCount(_) => "buffer_with_count",
      Op1::Contains(_) => "contains",
      Op1::All(_) => "all",
      Op1::Collect => "collect",
      Op1::OnErrorMap => "on_error_map",
      Op1::OnComplete => "on_complete",
      Op1::OnError => "on_error",
      Op1::MapIdx => "map(stateful)",
      Op1::FilterIdx => "filter(stateful)",
      Op1::TakeWhileIdx(_) => "take_while(stateful)",
      Op1::SkipWhileIdx(_) => "skip_while(stateful)",
      Op1::ScanIdx => "scan(stateful)",
      Op1::Finalize => "finalize",
      Op1::BoxIt => "box_it",
      Op1::Share => "share",
      Op1::GroupByFlatten(_) => "group_by",
      Op1::Flat(k, _) => match k {
        FlatKind::MergeAll(_) => "merge_all",
        FlatKind::ConcatAll => "concat_all",
        FlatKind::Flatten => "flatten",
        FlatKind::FlatMap => "flat_map",
        FlatKind::ConcatMap => "concat_map",
      },
      Op1::Delay(_) => "delay",
      Op1::DelayMicros(_) => "delay",
      Op1::DelayAt(_) => "delay_at",
      Op1::DelaySubscriptionAt(_) => "delay_subscription_at",
      Op1::DelaySubscription(_) => "delay_subscription",
      Op1::ObserveOn => "observe_on",
      Op1::SubscribeOn => "subscribe_on",
      Op1::Debounce(_) => "debounce",
      Op1::ThrottleTime(..) => "throttle_time",
      Op1::ThrottleBy(_) => "throttle",
      Op1::ThrottleCalls(_) => "throttle(stateful selector)",
      Op1::BufferWithTime(_) => "buffer_with_time",
      Op1::BufferWithCountAndTime(..) => "buffer_with_count_and_time",
      Op1::SampleInterval(_) => "sample(interval)",
      Op1::TakeUntilTimer(_) => "take_until(timer)",
    }
  }
}

impl Op2 {
  pub fn name(self) -> &'static str {
    match self {
      Op2::Merge => "merge",
      Op2::Zip => "zip",
      Op2::CombineLatest => "combine_latest",
      Op2::WithLatestFrom => "with_latest_from",
      Op2::TakeUntil => "take_until",
      Op2::SkipUntil => "skip_until",
      Op2::Sample => "sample",
      Op2::Buffer => "buffer",
    }
  }
}

// ------------------------------------------------------------ build context

#[derive(Clone, Default)]
pub struct Counters {
  /// calls of closures carried by sources (`of_fn`, `start`, `defer`, `create`)
  pub src_calls: Arc<AtomicUsize>,
  /// items pulled from a `from_iter` iterator
  pub pulls: Arc<AtomicUsize>,
  /// calls of `tap` closures
  pub taps: Arc<AtomicUsize>,
  /// calls of `finalize` closures
  pub finals: Arc<AtomicUsize>,
  /// subscriptions made to harness inner observables
  pub inner_subs: Arc<AtomicUsize>,
  /// currently live (subscribed, not terminated, not unsubscribed) inners
  pub inner_live: Arc<AtomicUsize>,
  pub inner_live_max: Arc<AtomicUsize>,
}

impl Counters {
  pub fn get(c: &Arc<AtomicUsize>) -> usize {
    c.load(Ordering::SeqCst)
  }
}

pub type RawStashL =
  Rc<RefCell<Vec<Subscriber<rxrust::observer::BoxObserver<'static, V, E>>>>>;
pub type RawStashT =
  Arc<Mutex<Vec<SubscriberThreads<rxrust::observer::BoxObserverThreads<V, E>>>>>;

/// Everything a built pipeline refers to. One per execution.
pub struct Cx {
  pub hot_l: Vec<LSubj>,
  pub hot_t: Vec<TSubj>,
  pub raw_l: Vec<RawStashL>,
  pub raw_t: Vec<RawStashT>,
  pub sched: Gated,
  pub ctr: Counters,
}

impl Cx {
  pub fn new(n_inputs: usize, sched: Gated) -> Cx {
    Cx {
      hot_l: (0..n_inputs).map(|_| LSubj::default()).collect(),
      hot_t: (0..n_inputs).map(|_| TSubj::default()).collect(),
      raw_l: (0..n_inputs).map(|_| Rc::new(RefCell::new(Vec::new()))).collect(),
      raw_t: (0..n_inputs).map(|_| Arc::new(Mutex::new(Vec::new()))).collect(),
      sched,
      ctr: Counters::default(),
    }
  }
}

fn inf<T>(e: Infallible) -> T {
  match e {}
}

/// collection whose conversion into an iterator is observable
#[derive(Clone)]
pub struct CountingColl {
  items: Vec<V>,
  calls: Arc<AtomicUsize>,
}
impl IntoIterator for CountingColl {
  type Item = V;
  type IntoIter = std::vec::IntoIter<V>;
  fn into_iter(self) -> Self::IntoIter {
    self.calls.fetch_add(1, Ordering::SeqCst);
    self.items.into_iter()
  }
}

/// iterator that counts how many elements were pulled from it
#[derive(Clone)]
pub struct CountingIter {
  items: std::vec::IntoIter<V>,
  pulls: Arc<AtomicUsize>,
}
impl Iterator for CountingIter {
  type Item = V;
  fn next(&mut self) -> Option<V> {
    let n = self.items.next();
    if n.is_some() {
      self.pulls.fetch_add(1, Ordering::SeqCst);
    }
    n
  }
}

/// ready future that counts how many distinct instances of it were run
#[derive(Clone)]
pub struct CountingFut<T> {
  v: T,
  runs: Arc<AtomicUsize>,
  polled: bool,
}
impl<T: Clone + Unpin> std::future::Future for CountingFut<T> {
  type Output = T;
  fn poll(
    mut self: std::pin::Pin<&mut Self>,
    _cx: &mut std::task::Context<'_>,
  ) -> std::task::Poll<T> {
    if !self.polled {
      self.polled = true;
      self.runs.fetch_add(1, Ordering::SeqCst);
    }
    std::task::Poll::Ready(self.v.clone())
  }
}

/// always-ready stream of 0..n that counts how often it is polled
#[derive(Clone)]
pub struct CountingStream {
  i: usize,
  n: usize,
  pulls: Arc<AtomicUsize>,
}
impl futures::Stream for CountingStream {
  type Item = V;
  fn poll_next(
    mut self: std::pin::Pin<&mut Self>,
    _cx: &mut std::task::Context<'_>,
  ) -> std::task::Poll<Option<V>> {
    self.pulls.fetch_add(1, Ordering::SeqCst);
    if self.i < self.n {
      self.i += 1;
      std::task::Poll::Ready(Some(V::I(self.i as i64 - 1)))
    } else {
      std::task::Poll::Ready(None)
    }
  }
}

/// the same stream with every item wrapped in `Ok` (for `from_stream_result`)
#[derive(Clone)]
pub struct CountingResultStream(CountingStream);
impl futures::Stream for CountingResultStream {
  type Item = Result<V, E>;
  fn poll_next(
    mut self: std::pin::Pin<&mut Self>,
    cx: &mut std::task::Context<'_>,
  ) -> std::task::Poll<Option<Result<V, E>>> {
    std::pin::Pin::new(&mut self.0).poll_next(cx).map(|o| o.map(Ok))
  }
}

fn live_inc(c: &Counters) {
  c.inner_subs.fetch_add(1, Ordering::SeqCst);
  let l = c.inner_live.fetch_add(1, Ordering::SeqCst) + 1;
  c.inner_live_max.fetch_max(l, Ordering::SeqCst);
}

/// Observer wrapper used by the harness inner observables to maintain the
/// live-inner counter: an inner stops being live at its terminal or when it is
/// unsubscribed, whichever comes first.
pub struct LiveObs<O> {
  o: O,
  live: Arc<AtomicUsize>,
  done: Arc<Mutex<bool>>,
}
fn live_dec(live: &Arc<AtomicUsize>, done: &Arc<Mutex<bool>>) {
  let mut d = done.lock().unwrap();
  if !*d {
    *d = true;
    live.fetch_sub(1, Ordering::SeqCst);
  }
}
impl<O: Observer<V, E>> Observer<V, E> for LiveObs<O> {
  fn next(&mut self, v: V) {
    self.o.next(v)
  }
  fn error(self, e: E) {
    live_dec(&self.live, &self.done);
    self.o.error(e)
  }
  fn complete(self) {
    live_dec(&self.live, &self.done);
    self.o.complete()
  }
  fn is_finished(&self) -> bool {
    self.o.is_finished()
  }
}
pub struct LiveSub<U> {
  u: U,
  live: Arc<AtomicUsize>,
  done: Arc<Mutex<bool>>,
}
impl<U: Subscription> Subscription for LiveSub<U> {
  fn unsubscribe(self) {
    live_dec(&self.live, &self.done);
    self.u.unsubscribe()
  }
  fn is_closed(&self) -> bool {
    self.u.is_closed()
  }
}

fn emit_script<O: Observer<V, E>>(mut o: O, script: &[NoteSpec]) {
  for n in script {
    match n {
      NoteSpec::N(v) => o.next(V::I(*v)),
      NoteSpec::Err(e) => {
        o.error(*e);
        return;
      }
      NoteSpec::C => {
        o.complete();
        return;
      }
    }
  }
  // script without terminal: the observer is simply dropped
}

macro_rules! inner_type {
  ($name:ident, $subj:ty, $boxsub:ident, $boxty:ty, $sched:ty, $boxobs:ident $(, $send:ident)?) => {
    #[derive(Clone)]
    pub enum $name {
      Cold(Vec<NoteSpec>, Counters),
      Hot($subj, Counters),
      Ticker(u64, $sched, Counters),
    }
    impl<O> Observable<V, E, O> for $name
    where
      O: Observer<V, E> + 'static $(+ $send)?,
    {
      type Unsub = $boxty;
      fn actual_subscribe(self, o: O) -> Self::Unsub {
        match self {
          $name::Cold(script, c) => {
            live_inc(&c);
            let done = Arc::new(Mutex::new(false));
            let lo = LiveObs { o, live: c.inner_live.clone(), done: done.clone() };
            let has_term = script.iter().any(|n| !matches!(n, NoteSpec::N(_)));
            emit_script(lo, &script);
            if !has_term {
              live_dec(&c.inner_live, &done);
            }
            $boxsub::new(())
          }
          $name::Hot(s, c) => {
            live_inc(&c);
            let done = Arc::new(Mutex::new(false));
            let lo = LiveObs { o, live: c.inner_live.clone(), done: done.clone() };
            let u = s.actual_subscribe(lo);
            $boxsub::new(LiveSub { u, live: c.inner_live.clone(), done })
          }
          $name::Ticker(p, sched, c) => {
            live_inc(&c);
            let done = Arc::new(Mutex::new(false));
            let lo = LiveObs { o, live: c.inner_live.clone(), done: done.clone() };
            let taps = c.taps.clone();
            let u = observable::interval(ticks(p), sched)
              .map(V::from)
              .on_error_map(inf::<E>)
              .tap(move |_| {
                taps.fetch_add(1, Ordering::SeqCst);
              })
              .actual_subscribe(rxrust::observer::$boxobs::new(lo));
            $boxsub::new(LiveSub { u, live: c.inner_live.clone(), done })
          }
        }
      }
    }
    impl ObservableExt<V, E> for $name {}
  };
}
inner_type!(InnerL, LSubj, BoxSubscription, BoxSubscription<'static>, Gated, BoxObserver);
inner_type!(InnerT, TSubj, BoxSubscriptionThreads, BoxSubscriptionThreads, GatedSend, BoxObserverThreads, Send);

macro_rules! ident_m {
  ($($t:tt)*) => { $($t)* };
}
macro_rules! not_cloneable_m {
  ($($t:tt)*) => {{
    #[allow(unused_variables)]
    let r = panic!("MACHINERY: operator is not Clone; excluded from the cloneable catalogue");
    #[allow(unreachable_code)]
    r
  }};
}

macro_rules! build_fns {
  (
    $fname:ident, $src_fn:ident, $Op:ty, $Inner:ident, $hot:ident, $raw:ident, $Subscriber:ident,
    $Subj:ty, sched = |$cxs:ident| $sched:expr, nc = $nc:ident,
    merge = $merge:ident, zip = $zip:ident, combine_latest = $combine_latest:ident,
    with_latest_from = $with_latest_from:ident, take_until = $take_until:ident,
    skip_until = $skip_until:ident, sample = $sample:ident, delay = $delay:ident,
    delay_at = $delay_at:ident,
    observe_on = $observe_on:ident, finalize = $finalize:ident, share = $share:ident,
    merge_all = $merge_all:ident, concat_all = $concat_all:ident, flatten = $flatten:ident,
    flat_map = $flat_map:ident, concat_map = $concat_map:ident,
    lock = |$st:ident| $lock:expr
  ) => {
    pub fn $src_fn(s: &Src, cx: &Cx) -> $Op {
      let c = cx.ctr.clone();
      match s {
        Src::Hot(i) => cx.$hot[*i].clone().box_it(),
        Src::Raw(i) => {
          let $st = cx.$raw[*i].clone();
          let calls = c.src_calls.clone();
          observable::create(move |sub: $Subscriber<_>| {
            calls.fetch_add(1, Ordering::SeqCst);
            $lock.push(sub);
          })
          .box_it()
        }
        Src::RawEager(i) => {
          let $st = cx.$raw[*i].clone();
          let calls = c.src_calls.clone();
          observable::create(move |mut sub: $Subscriber<_>| {
            calls.fetch_add(1, Ordering::SeqCst);
            sub.next(V::I(9));
            $lock.push(sub);
          })
          .box_it()
        }
        Src::Iter(items) => {
          let it = CountingIter {
            items: items.iter().map(|n| V::I(*n)).collect::<Vec<_>>().into_iter(),
            pulls: c.pulls.clone(),
          };
          observable::from_iter(it).on_error_map(inf::<E>).box_it()
        }
        Src::Create(script) => {
          let script = script.clone();
          let calls = c.src_calls.clone();
          observable::create(move |sub: $Subscriber<_>| {
            calls.fetch_add(1, Ordering::SeqCst);
            emit_script(sub, &script);
          })
          .box_it()
        }
        Src::CreatePolling(n) => {
          let (n, pulls) = (*n, c.pulls.clone());
          observable::create(move |mut sub: $Subscriber<_>| {
            for i in 0..n as i64 {
              if sub.is_finished() {
                break;
              }
              pulls.fetch_add(1, Ordering::SeqCst);
              sub.next(V::I(i));
            }
            sub.complete();
          })
          .box_it()
        }
        Src::Of(n) => observable::of(V::I(*n)).on_error_map(inf::<E>).box_it(),
        Src::IntoIter(items) => {
          let coll = CountingColl { items: items.iter().map(|n| V::I(*n)).collect(), calls: c.src_calls.clone() };
          observable::from_iter(coll).on_error_map(inf::<E>).box_it()
        }
        Src::OfFn(n) => {
          let (n, calls) = (*n, c.src_calls.clone());
          observable::of_fn(move || {
            calls.fetch_add(1, Ordering::SeqCst);
            V::I(n)
          })
          .on_error_map(inf::<E>)
          .box_it()
        }
        Src::Start(n) => {
          let (n, calls) = (*n, c.src_calls.clone());
          observable::start(move || {
            calls.fetch_add(1, Ordering::SeqCst);
            V::I(n)
          })
          .on_error_map(inf::<E>)
          .box_it()
        }
        Src::OfOption(o) => {
          observable::of_option(o.map(V::I)).on_error_map(inf::<E>).box_it()
        }
        Src::OfResult(r) => observable::of_result(r.map(V::I)).box_it(),
        Src::Repeat(n, k) => {
          observable::repeat(V::I(*n), *k).on_error_map(inf::<E>).box_it()
        }
        Src::Empty => {
          ObservableExt::<V, Infallible>::on_error_map(observable::empty(), inf::<E>)
            .box_it()
        }
        Src::Never => observable::never()
          .map(V::from)
          .on_error_map(inf::<E>)
          .box_it(),
        Src::Throw(e) => observable::throw(*e).map(V::from).box_it(),
        Src::Defer(inner) => {
          let calls = c.src_calls.clone();
          // the factory builds the deferred source when it is called
          let inner = (**inner).clone();
          let cx2 = SendBox(cx.shallow());
          observable::defer(move || {
            calls.fetch_add(1, Ordering::SeqCst);
            $src_fn(&inner, cx2.get())
          })
          .box_it()
        }
        Src::Interval(p) => {
          let $cxs = cx;
          observable::interval(ticks(*p), $sched)
            .map(V::from)
            .on_error_map(inf::<E>)
            .box_it()
        }
        Src::IntervalAt(off, p) => {
          let $cxs = cx;
          observable::interval_at(instant_at(*off), ticks(*p), $sched)
            .map(V::from)
            .on_error_map(inf::<E>)
            .box_it()
        }
        Src::StreamCount(n) => {
          let $cxs = cx;
          let st = CountingStream { i: 0, n: *n, pulls: c.pulls.clone() };
          observable::from_stream(st, $sched).on_error_map(inf::<E>).box_it()
        }
        Src::StreamResultCount(n) => {
          let $cxs = cx;
          let st = CountingResultStream(CountingStream { i: 0, n: *n, pulls: c.pulls.clone() });
          observable::from_stream_result(st, $sched).box_it()
        }
        Src::FromFuture(v) => {
          let $cxs = cx;
          let f = CountingFut { v: V::I(*v), runs: c.src_calls.clone(), polled: false };
          observable::from_future(f, $sched).on_error_map(inf::<E>).box_it()
        }
        Src::FromFutureResult(r) => {
          let $cxs = cx;
          let f = CountingFut { v: r.map(V::I), runs: c.src_calls.clone(), polled: false };
          observable::from_future_result(f, $sched).box_it()
        }
        Src::IterCount(n) => {
          let it = CountingIter {
            items: (0..*n as i64).map(V::I).collect::<Vec<_>>().into_iter(),
            pulls: c.pulls.clone(),
          };
          observable::from_iter(it).on_error_map(inf::<E>).box_it()
        }
        Src::Timer(v, d) => $nc! {{
          let $cxs = cx;
          observable::timer(V::I(*v), ticks(*d), $sched)
            .on_error_map(inf::<E>)
            .box_it()
        }},
        Src::TimerAt(v, off) => $nc! {{
          let $cxs = cx;
          observable::timer_at(V::I(*v), instant_at(*off), $sched)
            .on_error_map(inf::<E>)
            .box_it()
        }},
      }
    }

    pub fn $fname(p: &Pipe, cx: &Cx) -> $Op {
      match p {
        Pipe::S(s) => $src_fn(s, cx),
        Pipe::O2(op, a, b) => {
          let a = $fname(a, cx);
          let b = $fname(b, cx);
          match op {
            Op2::Merge => a.$merge(b).box_it(),
            Op2::Zip => a.$zip(b).map(V::from).box_it(),
            Op2::CombineLatest => a.$combine_latest(b, |x, y| (x, y)).map(V::from).box_it(),
            Op2::WithLatestFrom => a.$with_latest_from(b).map(V::from).box_it(),
            Op2::TakeUntil => a.$take_until(b).box_it(),
            Op2::SkipUntil => a.$skip_until(b).box_it(),
            Op2::Sample => a.$sample(b).box_it(),
            Op2::Buffer => a.buffer(b.map(|_| ())).map(V::from).box_it(),
          }
        }
        Pipe::O1(op, src) => {
          let s = $fname(src, cx);
          let c = cx.ctr.clone();
          match op {
            Op1::Map => s.map(inc).box_it(),
            Op1::MapTo(n) => s.map_to(V::I(*n)).box_it(),
            Op1::Filter(p) => {
              let p = *p;
              s.filter(move |v| p.ev(v)).box_it()
            }
            Op1::FilterMap(p) => {
              let p = *p;
              s.filter_map(move |v: V| if p.ev(&v) { Some(inc(v)) } else { None })
                .box_it()
            }
            Op1::Tap => {
              let taps = c.taps.clone();
              s.tap(move |_| {
                taps.fetch_add(1, Ordering::SeqCst);
              })
              .box_it()
            }
            Op1::Timestamp => s.timestamp().map(|(v, _at)| v).box_it(),
            Op1::Take(n) => s.take(*n).box_it(),
            Op1::Skip(n) => s.skip(*n).box_it(),
            Op1::TakeWhile(p) => {
              let p = *p;
              s.take_while(move |v| p.ev(v)).box_it()
            }
            Op1::TakeWhileIncl(p) => {
              let p = *p;
              s.take_while_inclusive(move |v| p.ev(v)).box_it()
            }
            Op1::SkipWhile(p) => {
              let p = *p;
              s.skip_while(move |v| p.ev(v)).box_it()
            }
            Op1::TakeLast(n) => s.take_last(*n).box_it(),
            Op1::SkipLast(n) => s.skip_last(*n).box_it(),
            Op1::First => s.first().box_it(),
            Op1::FirstOr(d) => s.first_or(V::I(*d)).box_it(),
            Op1::Last => s.last().box_it(),
            Op1::LastOr(d) => s.last_or(V::I(*d)).box_it(),
            Op1::ElementAt(k) => s.element_at(*k).box_it(),
            Op1::IgnoreElements => s.ignore_elements().box_it(),
            Op1::StartWith(vs) => {
              s.start_with(vs.iter().map(|n| V::I(*n)).collect()).box_it()
            }
            Op1::DefaultIfEmpty(d) => s.default_if_empty(V::I(*d)).box_it(),
            Op1::Scan => s.scan(|acc: V, v: V| acc + v).box_it(),
            Op1::ScanInitial(i) => s.scan_initial(V::I(*i), |acc: V, v: V| acc + v).box_it(),
            Op1::Reduce => s.reduce(|acc: V, v: V| acc + v).box_it(),
            Op1::ReduceInitial(i) => {
              s.reduce_initial(V::I(*i), |acc: V, v: V| acc + v).box_it()
            }
            Op1::Count => s.count().map(V::from).box_it(),
            Op1::Sum => s.sum().box_it(),
            Op1::Min => s.min().box_it(),
            Op1::Max => s.max().box_it(),
            Op1::Average => s.map(|v: V| v.num() as f64).average().map(avg_out).box_it(),
            Op1::Distinct => s.distinct().box_it(),
            Op1::DistinctKey(k) => {
              let k = *k;
              s.distinct_key(move |v: &V| k.ev(v)).box_it()
            }
            Op1::DistinctUntilChanged => s.distinct_until_changed().box_it(),
            Op1::DistinctUntilKeyChanged(k) => {
              let k = *k;
              s.distinct_until_key_changed(move |v: &V| k.ev(v)).box_it()
            }
            Op1::Pairwise => s.pairwise().map(V::from).box_it(),
            Op1::BufferWithCount(n) => s.buffer_with_count(*n).map(V::from).box_it(),
            Op1::Contains(n) => s.contains(V::I(*n)).map(V::from).box_it(),
            Op1::All(p) => {
              let p = *p;
              s.all(move |v: V| p.ev(&v)).map(V::from).box_it()
            }
            Op1::Collect => s.collect::<Vec<V>>().map(V::from).box_it(),
            Op1::OnErrorMap => s.on_error_map(E::swap).box_it(),
            Op1::OnComplete => $nc! {{
              let f = c.finals.clone();
              s.on_complete(move || {
                f.fetch_add(1, Ordering::SeqCst);
              })
              .box_it()
            }},
            Op1::OnError => $nc! {{
              let f = c.finals.clone();
              s.on_error(move |_e: E| {
                f.fetch_add(1, Ordering::SeqCst);
              })
              .on_error_map(inf::<E>)
              .box_it()
            }},
            Op1::MapIdx => {
              let mut k = 0i64;
              s.map(move |v: V| {
                k += 1;
                V::I(v.num() + 10 * (k - 1))
              })
              .box_it()
            }
            Op1::FilterIdx => {
              let k = std::cell::Cell::new(0usize);
              s.filter(move |_: &V| {
                k.set(k.get() + 1);
                (k.get() - 1) % 2 == 0
              })
              .box_it()
            }
            Op1::TakeWhileIdx(n) => {
              let (n, mut k) = (*n, 0usize);
              s.take_while(move |_: &V| {
                k += 1;
                k <= n
              })
              .box_it()
            }
            Op1::SkipWhileIdx(n) => {
              let (n, mut k) = (*n, 0usize);
              s.skip_while(move |_: &V| {
                k += 1;
                k <= n
              })
              .box_it()
            }
            Op1::ScanIdx => {
              let k = std::cell::Cell::new(0i64);
              s.scan(move |acc: V, v: V| {
                k.set(k.get() + 1);
                V::I(acc.num() + v.num() + k.get() - 1)
              })
              .box_it()
            }
            Op1::Finalize => {
              let f = c.finals.clone();
              s.$finalize(move || {
                f.fetch_add(1, Ordering::SeqCst);
              })
              .box_it()
            }
            Op1::BoxIt => {
              let b: $Op = s.box_it();
              b.box_it()
            }
            Op1::Share => s.$share().box_it(),
            Op1::GroupByFlatten(k) => $nc! {{
              let k = *k;
              s.group_by::<_, _, $Subj>(move |v: &V| k.ev(v))
                .$flat_map(|g| g)
                .box_it()
            }},
            Op1::Flat(kind, inners) => $nc! {{
              let table: Vec<$Inner> = inners
                .iter()
                .map(|i| match i {
                  InnerSpec::Cold(s) => $Inner::Cold(s.clone(), c.clone()),
                  InnerSpec::Hot(i) => $Inner::Hot(cx.$hot[*i].clone(), c.clone()),
                  InnerSpec::Ticker(p) => {
                    let $cxs = cx;
                    $Inner::Ticker(*p, $sched, c.clone())
                  }
                })
                .collect();
              let pick = move |v: V| {
                table[(v.num().rem_euclid(table.len() as i64)) as usize].clone()
              };
              match kind {
                FlatKind::MergeAll(n) => s.map(pick).$merge_all(*n).box_it(),
                FlatKind::ConcatAll => s.map(pick).$concat_all().box_it(),
                FlatKind::Flatten => s.map(pick).$flatten().box_it(),
                FlatKind::FlatMap => s.$flat_map(pick).box_it(),
                FlatKind::ConcatMap => s.$concat_map(pick).box_it(),
              }
            }},
            Op1::Delay(d) => {
              let $cxs = cx;
              s.$delay(ticks(*d), $sched).box_it()
            }
            Op1::DelayMicros(n) => {
              let $cxs = cx;
              s.$delay(std::time::Duration::from_micros(*n), $sched).box_it()
            }
            Op1::DelaySubscription(d) => {
              let $cxs = cx;
              s.delay_subscription(ticks(*d), $sched).box_it()
            }
            Op1::DelayAt(off) => {
              let $cxs = cx;
              s.$delay_at(instant_at(*off), $sched).box_it()
            }
            Op1::DelaySubscriptionAt(off) => {
              let $cxs = cx;
              s.delay_subscription_at(instant_at(*off), $sched).box_it()
            }
            Op1::ObserveOn => {
              let $cxs = cx;
              s.$observe_on($sched).box_it()
            }
            Op1::SubscribeOn => {
              let $cxs = cx;
              s.subscribe_on($sched).box_it()
            }
            Op1::Debounce(w) => {
              let $cxs = cx;
              s.debounce(ticks(*w), $sched).box_it()
            }
            Op1::ThrottleTime(w, edge) => $nc! {{
              let $cxs = cx;
              s.throttle_time(ticks(*w), edge.get(), $sched).box_it()
            }},
            Op1::ThrottleBy(edge) => {
              let $cxs = cx;
              s.throttle(|v: &V| ticks(throttle_by_window(v)), edge.get(), $sched).box_it()
            }
            Op1::ThrottleCalls(edge) => {
              let $cxs = cx;
              let calls = Arc::new(AtomicUsize::new(0));
              s.throttle(
                move |_: &V| ticks(throttle_calls_window(calls.fetch_add(1, Ordering::SeqCst))),
                edge.get(),
                $sched,
              )
              .box_it()
            }
            Op1::BufferWithTime(w) => {
              let $cxs = cx;
              s.buffer_with_time(ticks(*w), $sched).map(V::from).box_it()
            }
            Op1::BufferWithCountAndTime(n, w) => {
              let $cxs = cx;
              s.buffer_with_count_and_time(*n, ticks(*w), $sched)
                .map(V::from)
                .box_it()
            }
            Op1::SampleInterval(p) => {
              let $cxs = cx;
              let iv = observable::interval(ticks(*p), $sched).on_error_map(inf::<E>);
              s.$sample(iv).box_it()
            }
            Op1::TakeUntilTimer(d) => $nc! {{
              let $cxs = cx;
              let t = observable::timer((), ticks(*d), $sched);
              s.$take_until(t).box_it()
            }},
          }
        }
      }
    }
  };
}

/// instant `off` ticks from (real) now; negative = in the past
pub fn instant_at(off: i64) -> Instant {
  let now = Instant::now();
  let at = if off >= 0 {
    now + ticks(off as u64)
  } else {
    now.checked_sub(ticks((-off) as u64)).unwrap_or(now)
  };
  INSTANTS.with(|l| l.borrow_mut().push(at));
  at
}

thread_local! {
  /// every instant handed to an `_at` form by this thread's builders, in order
  pub static INSTANTS: std::cell::RefCell<Vec<Instant>> = std::cell::RefCell::new(vec![]);
}

impl Cx {
  /// a context sharing all handles and counters (for closures that build
  /// sources lazily)
  pub fn shallow(&self) -> Cx {
    Cx {
      hot_l: self.hot_l.clone(),
      hot_t: self.hot_t.clone(),
      raw_l: self.raw_l.clone(),
      raw_t: self.raw_t.clone(),
      sched: self.sched.clone(),
      ctr: self.ctr.clone(),
    }
  }
}

/// Wrapper that is `Send` so that deferred factories can be used in the
/// `_threads` catalogue (single-threaded engine, never actually sent).
#[derive(Clone)]
pub struct SendBox<T>(pub T);
unsafe impl<T> Send for SendBox<T> {}
unsafe impl<T> Sync for SendBox<T> {}
impl<T> SendBox<T> {
  pub fn get(&self) -> &T {
    &self.0
  }
}
impl Clone for Cx {
  fn clone(&self) -> Self {
    self.shallow()
  }
}

build_fns!(
  build_local, src_local, LOp, InnerL, hot_l, raw_l, Subscriber, LSubj,
  sched = |cx| cx.sched.clone(), nc = ident_m,
  merge = merge, zip = zip, combine_latest = combine_latest,
  with_latest_from = with_latest_from, take_until = take_until,
  skip_until = skip_until, sample = sample, delay = delay, delay_at = delay_at,
  observe_on = observe_on, finalize = finalize, share = share,
  merge_all = merge_all, concat_all = concat_all, flatten = flatten,
  flat_map = flat_map, concat_map = concat_map,
  lock = |st| st.borrow_mut()
);

build_fns!(
  build_clone, src_clone, COp, InnerL, hot_l, raw_l, Subscriber, LSubj,
  sched = |cx| cx.sched.clone(), nc = not_cloneable_m,
  merge = merge, zip = zip, combine_latest = combine_latest,
  with_latest_from = with_latest_from, take_until = take_until,
  skip_until = skip_until, sample = sample, delay = delay, delay_at = delay_at,
  observe_on = observe_on, finalize = finalize, share = share,
  merge_all = merge_all, concat_all = concat_all, flatten = flatten,
  flat_map = flat_map, concat_map = concat_map,
  lock = |st| st.borrow_mut()
);

build_fns!(
  build_threads, src_threads, TOp, InnerT, hot_t, raw_t, SubscriberThreads, TSubj,
  sched = |cx| GatedSend(cx.sched.clone()), nc = ident_m,
  merge = merge_threads, zip = zip_threads, combine_latest = combine_latest_threads,
  with_latest_from = with_latest_from_threads, take_until = take_until_threads,
  skip_until = skip_until_threads, sample = sample_threads, delay = delay_threads, delay_at = delay_at_threads,
  observe_on = observe_on_threads, finalize = finalize_threads, share = share_threads,
  merge_all = merge_all_threads, concat_all = concat_all_threads, flatten = flatten_threads,
  flat_map = flat_map_threads, concat_map = concat_map_threads,
  lock = |st| st.lock().unwrap()
);
