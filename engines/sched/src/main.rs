pub mod dfs;
pub mod driver;
pub mod harness;
pub mod props;

use driver::{run_scenario, ClassRec, ScResult};
use props::Tier;
use serde_json::{json, Value};
use std::collections::{BTreeMap, HashSet};
use std::sync::atomic::{AtomicUsize, Ordering};
use std::sync::Mutex;
use std::time::Instant;

const VERIF_ROOT: &str = "/verif";

fn usage() -> ! {
  eprintln!("usage: sched <PROP> [--tier quick|thorough] [--threads N] [--replay FILE] [--list]");
  std::process::exit(2)
}

struct Known {
  property: String,
  status: String,
  class: String,
  what: String,
}

fn load_known() -> Vec<Known> {
  let p = format!("{VERIF_ROOT}/known_findings.json");
  let Ok(s) = std::fs::read_to_string(&p) else { return vec![] };
  let v: Value = serde_json::from_str(&s).unwrap_or_else(|e| {
    eprintln!("MACHINERY: cannot parse {p}: {e}");
    std::process::exit(2)
  });
  v["findings"]
    .as_array()
    .cloned()
    .unwrap_or_default()
    .iter()
    .map(|e| Known {
      property: e["property"].as_str().unwrap_or("").into(),
      status: e["status"].as_str().unwrap_or("").into(),
      class: e["class"].as_str().unwrap_or("").into(),
      what: e["what"].as_str().unwrap_or("").into(),
    })
    .collect()
}

fn main() {
  let args: Vec<String> = std::env::args().skip(1).collect();
  if args.is_empty() {
    usage();
  }
  let prop = args[0].clone();
  let mut tier = match std::env::var("VERIF_TIER").as_deref() {
    Ok("thorough") => Tier::Thorough,
    _ => Tier::Quick,
  };
  let mut threads = std::thread::available_parallelism().map(|n| n.get()).unwrap_or(4);
  let mut replay: Option<String> = None;
  let mut list = false;
  let mut i = 1;
  while i < args.len() {
    match args[i].as_str() {
      "--tier" => {
        i += 1;
        tier = match args.get(i).map(|s| s.as_str()) {
          Some("quick") => Tier::Quick,
          Some("thorough") => Tier::Thorough,
          _ => usage(),
        };
      }
      "--threads" => {
        i += 1;
        threads = args.get(i).and_then(|s| s.parse().ok()).unwrap_or_else(|| usage());
      }
      "--replay" => {
        i += 1;
        replay = Some(args.get(i).cloned().unwrap_or_else(|| usage()));
      }
      "--list" => list = true,
      _ => usage(),
    }
    i += 1;
  }
  driver::install_panic_hook();
  harness::install_timer_fn();
  let t0 = Instant::now();
  let Some(mut plan) = props::plan(&prop, tier) else {
    eprintln!("MACHINERY: engine E2 does not serve {prop}");
    std::process::exit(2);
  };
  if list {
    for s in &plan.scenarios {
      println!("{}", s.name);
    }
    return;
  }
  if let Some(file) = replay {
    let s = std::fs::read_to_string(&file).unwrap_or_else(|e| {
      eprintln!("MACHINERY: cannot read {file}: {e}");
      std::process::exit(2)
    });
    let v: Value = serde_json::from_str(&s).unwrap_or_else(|e| {
      eprintln!("MACHINERY: cannot parse {file}: {e}");
      std::process::exit(2)
    });
    let name = v["scenario"].as_str().unwrap_or("").to_string();
    let choices: Vec<u32> = v["choices"].as_array().map(|a| a.iter().filter_map(|x| x.as_u64()).map(|x| x as u32).collect()).unwrap_or_default();
    if !plan.scenarios.iter().any(|s| s.name == name) {
      let other = if tier == Tier::Quick { Tier::Thorough } else { Tier::Quick };
      if let Some(p2) = props::plan(&prop, other) {
        plan = p2;
      }
    }
    let Some(sc) = plan.scenarios.iter().find(|s| s.name == name) else {
      eprintln!("MACHINERY: scenario not found: {name}");
      std::process::exit(2);
    };
    let mut sigs = vec![];
    for round in 0..2 {
      let r = run_scenario(sc, Some(choices.clone()), true);
      if round == 0 {
        println!("scenario: {}", sc.name);
        println!("schedule: {choices:?}");
        if let Some((ch, tr)) = &r.sample {
          println!("choices taken: {ch:?}");
          for l in tr {
            println!("  trace {l}");
          }
        }
        for (c, rec) in &r.classes {
          println!("  VIOLATES {c} :: {}", rec.detail);
        }
        for m in &r.machinery {
          println!("  MACHINERY {m}");
        }
      }
      sigs.push((r.classes.keys().cloned().collect::<Vec<_>>(), r.outcomes.iter().cloned().collect::<Vec<_>>()));
      if !r.machinery.is_empty() {
        std::process::exit(2);
      }
    }
    if sigs[0] != sigs[1] {
      eprintln!("MACHINERY: replay not deterministic");
      std::process::exit(2);
    }
    std::process::exit(if sigs[0].0.is_empty() { 0 } else { 1 });
  }

  // ---- run all scenarios
  let next = AtomicUsize::new(0);
  let results: Mutex<Vec<(usize, ScResult)>> = Mutex::new(vec![]);
  let scs = &plan.scenarios;
  std::thread::scope(|s| {
    for _ in 0..threads.max(1) {
      s.spawn(|| loop {
        let i = next.fetch_add(1, Ordering::SeqCst);
        if i >= scs.len() {
          break;
        }
        let r = run_scenario(&scs[i], None, false);
        results.lock().unwrap().push((i, r));
      });
    }
  });
  let mut results = results.into_inner().unwrap();
  results.sort_by_key(|x| x.0);
  let mut executions = 0u64;
  let mut states = 0u64;
  let mut delivered = 0u64;
  let mut aborted = 0u64;
  let mut yields = 0u64;
  let mut capped = 0u64;
  let mut max_depth = 0usize;
  let mut max_pre = 0u32;
  let mut outcomes: HashSet<(usize, u64)> = HashSet::new();
  let mut classes: BTreeMap<String, ClassRec> = BTreeMap::new();
  let mut machinery: Vec<String> = vec![];
  let mut samples: Vec<Value> = vec![];
  let mut per_scenario: Vec<Value> = vec![];
  for (i, r) in &results {
    executions += r.executions;
    states += r.states;
    delivered += r.delivered_execs;
    aborted += r.aborted;
    if !scs[*i].name.starts_with("ticker") {
      yields += r.yields;
    }
    capped += r.capped as u64;
    max_depth = max_depth.max(r.max_depth);
    max_pre = max_pre.max(r.max_preemptions);
    for o in &r.outcomes {
      outcomes.insert((*i, *o));
    }
    machinery.extend(r.machinery.iter().cloned());
    for (c, rec) in &r.classes {
      match classes.get_mut(c) {
        Some(e) => {
          e.count += rec.count;
          if rec.choices.len() < e.choices.len() {
            let n = e.count;
            *e = rec.clone();
            e.count = n;
          }
        }
        None => {
          classes.insert(c.clone(), rec.clone());
        }
      }
    }
    if samples.len() < 8 && i % 7 == 0 {
      if let Some((ch, tr)) = &r.sample {
        samples.push(json!({"scenario": scs[*i].name, "schedule": ch, "trace": tr}));
      }
    }
    if per_scenario.len() < 400 {
      per_scenario.push(json!({"scenario": scs[*i].name, "schedules": r.executions, "distinct_outcomes": r.outcomes.len(), "max_preemptions_used": r.max_preemptions, "capped": r.capped}));
    }
  }
  let known = load_known();
  let mut exit = 0;
  let mut violations = 0u64;
  let mut class_json = vec![];
  let mut known_hits = vec![];
  let dir = format!("{VERIF_ROOT}/replays/{prop}");
  let _ = std::fs::create_dir_all(&dir);
  let mut lines = 0;
  for (class, rec) in &classes {
    let k = known.iter().find(|k| k.property == prop && k.status == "known" && k.class == *class);
    let fname = format!(
      "{dir}/E2_{}.json",
      class.chars().map(|c| if c.is_ascii_alphanumeric() { c } else { '_' }).collect::<String>()
    );
    let rp = json!({"property": prop, "engine": "E2 sched", "class": class, "scenario": rec.scenario,
      "choices": rec.choices, "preemption_bound": rec.bound, "detail": rec.detail, "count_in_run": rec.count});
    let _ = std::fs::write(&fname, serde_json::to_string_pretty(&rp).unwrap());
    class_json.push(json!({"class": class, "count": rec.count, "scenario": rec.scenario, "detail": rec.detail, "known": k.is_some(), "replay": fname}));
    match k {
      Some(k) => {
        println!("KNOWN-FINDING: property={prop} {} [{class}] e.g. {} :: {}", k.what, rec.scenario, rec.detail);
        known_hits.push(class.clone());
      }
      None => {
        violations += rec.count;
        exit = 1;
        if lines < 20 {
          println!("VIOLATION property={prop} replay={fname}");
          println!("  class={class} scenario={} detail={}", rec.scenario, rec.detail);
          lines += 1;
        }
      }
    }
  }
  if yields > 0 {
    machinery.push(format!("{yields} yield points were met: a harness or library loop is polling"));
  }
  if !machinery.is_empty() {
    for m in machinery.iter().take(10) {
      eprintln!("MACHINERY: {m}");
    }
    exit = 2;
  }
  let tier_s = if tier == Tier::Quick { "quick" } else { "thorough" };
  let seed = std::env::var("VERIF_SEED").ok().and_then(|s| s.parse::<i64>().ok()).unwrap_or(0);
  let ev = json!({
    "property_id": prop, "tier": tier_s, "seed": seed, "level": "model_checking",
    "coverage": {
      "states": states, "transitions": states.saturating_sub(results.len() as u64).max(1),
      "traces_validated_against_impl": executions, "evaluations": executions,
      "distinct_nontrivial": delivered, "distinct_outcomes": outcomes.len(),
      "rule": plan.rule, "samples": samples, "exhaustive": capped == 0,
      "scenarios": results.len(), "schedules_that_ended_in_deadlock_or_panic": aborted,
      "scenarios_that_hit_the_schedule_cap": capped, "max_depth": max_depth,
      "max_preemptions_used": max_pre, "bounds": plan.bounds, "violation_classes": class_json,
      "known_findings_hit": known_hits, "engine": "E2 sched", "per_scenario": per_scenario,
      "oracle_checks": executions, "skipped_unspecified": 0,
      "steps_executed_including_replays": 0, "executions_that_hit_a_cap": 0,
    },
    "assumptions": plan.assumptions,
    "wall_s": t0.elapsed().as_secs_f64(),
    "violations": violations,
  });
  let outp = std::env::var("VERIF_EVIDENCE_OUT").unwrap_or_else(|_| format!("{VERIF_ROOT}/evidence/{prop}.json"));
  if let Err(e) = std::fs::write(&outp, serde_json::to_string_pretty(&ev).unwrap()) {
    eprintln!("MACHINERY: cannot write evidence {outp}: {e}");
    std::process::exit(2);
  }
  println!(
    "{prop} {tier_s} [E2 sched]: scenarios={} schedules={} states={} outcomes={} nontrivial={} aborted={} capped={} max_preemptions={} classes={} wall={:.1}s",
    results.len(), executions, states, outcomes.len(), delivered, aborted, capped, max_pre, classes.len(), t0.elapsed().as_secs_f64()
  );
  std::process::exit(exit);
}
