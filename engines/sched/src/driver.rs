//! Runs one scenario: all schedules within the preemption bound, resuming the
//! search after executions that end in a deadlock or panic.
use crate::dfs::{after_abort, BoundedDfs, DfsState};
use crate::harness::{reset_world, Ctx};
use shuttle::{Config, FailurePersistence, Runner};
use std::cell::RefCell;
use std::collections::hash_map::DefaultHasher;
use std::collections::{BTreeMap, HashSet};
use std::hash::{Hash, Hasher};
use std::panic::{catch_unwind, AssertUnwindSafe};
use std::sync::{Arc, Mutex};

/// what the scenario body reports besides violations
#[derive(Default)]
pub struct Out {
  pub delivered: u64,
  pub outcome: u64,
  pub trace: Vec<String>,
}
impl Out {
  pub fn note<T: Hash>(&mut self, t: &T) {
    let mut h = DefaultHasher::new();
    self.outcome.hash(&mut h);
    t.hash(&mut h);
    self.outcome = h.finish();
  }
}

pub type Body = Arc<dyn Fn(&Arc<Ctx>, &mut Out) + Send + Sync>;

#[derive(Clone)]
pub struct Scenario {
  pub name: String,
  /// short signature used in class keys of deadlocks / panics
  pub sig: String,
  pub bound: u32,
  pub max_execs: u64,
  pub body: Body,
}

#[derive(Clone, Debug)]
pub struct ClassRec {
  pub count: u64,
  pub scenario: String,
  pub bound: u32,
  pub choices: Vec<u32>,
  pub detail: String,
}

#[derive(Default)]
pub struct ScResult {
  pub executions: u64,
  pub states: u64,
  pub max_depth: usize,
  pub max_preemptions: u32,
  pub capped: bool,
  pub yields: u64,
  pub classes: BTreeMap<String, ClassRec>,
  pub outcomes: HashSet<u64>,
  pub delivered_execs: u64,
  pub aborted: u64,
  pub machinery: Vec<String>,
  pub sample: Option<(Vec<u32>, Vec<String>)>,
}

thread_local! {
  static LAST_PANIC: RefCell<String> = RefCell::new(String::new());
}

/// name of the scenario this OS thread is exploring
type Current = (String,);
thread_local! {
  static CURRENT: RefCell<Option<Current>> = RefCell::new(None);
}

fn class_of(sig: &str, msg: &str) -> (String, String) {
  let short: String = msg.chars().take(200).collect();
  if msg.contains("deadlock") {
    (format!("deadlock:{sig}"), short)
  } else {
    let text: String = short.split(" @ ").next().unwrap_or("").chars().filter(|c| !c.is_ascii_digit()).take(50).collect();
    (format!("panic:{sig}:{text}"), short)
  }
}

pub fn install_panic_hook() {
  std::panic::set_hook(Box::new(|info| {

    let msg = if let Some(s) = info.payload().downcast_ref::<&str>() {
      s.to_string()
    } else if let Some(s) = info.payload().downcast_ref::<String>() {
      s.clone()
    } else {
      "panic".to_string()
    };
    if msg.contains("panic in a destructor during cleanup") || msg.contains("cannot unwind") {
      // the process is going down: an engine failure, never a verdict
      let first = LAST_PANIC.with(|p| p.borrow().clone());
      let name = CURRENT.with(|c| c.borrow().as_ref().map(|c| c.0.clone())).unwrap_or_default();
      eprintln!("MACHINERY: the runtime aborts while cleaning up in scenario `{name}` after: {first}");
      return;
    }
    let loc = info.location().map(|l| format!("{}:{}", l.file(), l.line())).unwrap_or_default();
    if std::env::var_os("VERIF_PANIC_TRACE").is_some() {
      eprintln!("panic: {msg} @ {loc}");
    }
    LAST_PANIC.with(|p| {
      let mut p = p.borrow_mut();
      // keep the first (innermost) message of an execution
      if p.is_empty() {
        *p = format!("{msg} @ {loc}");
      }
    });
  }));
}

fn record(res: &mut ScResult, class: String, sc: &Scenario, choices: Vec<u32>, detail: String) {
  match res.classes.get_mut(&class) {
    Some(e) => {
      e.count += 1;
      if choices.len() < e.choices.len() {
        e.choices = choices;
        e.detail = detail;
        e.bound = sc.bound;
      }
    }
    None => {
      res.classes.insert(
        class,
        ClassRec { count: 1, scenario: sc.name.clone(), bound: sc.bound, choices, detail },
      );
    }
  }
}

fn config() -> Config {
  let mut c = Config::new();
  c.failure_persistence = FailurePersistence::None;
  c.silence_warnings = true;
  c
}

pub fn run_scenario(sc: &Scenario, replay: Option<Vec<u32>>, want_trace: bool) -> ScResult {
  let st = Arc::new(Mutex::new(DfsState::new(sc.bound, sc.max_execs)));
  if let Some(p) = &replay {
    let mut s = st.lock().unwrap();
    s.prefix = p.clone();
    s.single = true;
    s.bound = u32::MAX;
  }
  let res: Arc<Mutex<ScResult>> = Arc::new(Mutex::new(ScResult::default()));
  loop {
    let sched = BoundedDfs(st.clone());
    let runner = Runner::new(sched, config());
    let (st2, res2, sc2) = (st.clone(), res.clone(), sc.clone());
    LAST_PANIC.with(|p| p.borrow_mut().clear());
    CURRENT.with(|c| *c.borrow_mut() = Some((sc.name.clone(),)));
    let r = catch_unwind(AssertUnwindSafe(move || {
      runner.run(move || {
        LAST_PANIC.with(|p| p.borrow_mut().clear());
        reset_world();
        let ctx = Ctx::new();
        let mut out = Out::default();
        (sc2.body)(&ctx, &mut out);
        let choices = st2.lock().unwrap().choices();
        let mut res = res2.lock().unwrap();
        if out.delivered > 0 {
          res.delivered_execs += 1;
        }
        res.outcomes.insert(out.outcome);
        if want_trace || res.sample.is_none() {
          res.sample = Some((choices.clone(), out.trace.clone()));
        }
        let viols = std::mem::take(&mut *ctx.viol.lock().unwrap());
        for v in viols {
          if v.class.starts_with("machinery") {
            res.machinery.push(format!("{}: {}", sc2.name, v.detail));
          } else {
            record(&mut res, v.class, &sc2, choices.clone(), v.detail);
          }
        }
      })
    }));
    match r {
      Ok(_) => break,
      Err(_) => {
        let msg = LAST_PANIC.with(|p| p.borrow().clone());
        let choices = st.lock().unwrap().choices();
        let mut rr = res.lock().unwrap();
        rr.aborted += 1;
        if msg.contains("MACHINERY") {
          rr.machinery.push(format!("{}: {}", sc.name, msg));
        } else {
          let (class, short) = class_of(&sc.sig, &msg);
          record(&mut rr, class, sc, choices, short);
        }
        drop(rr);
        // pool task handles of the failed execution were never joined: they must
        // not be dropped inside the next execution (their wakers name tasks of an
        // execution that no longer exists), nor outside of one
        crate::harness::forget_pool();
        if !after_abort(&st) {
          break;
        }
      }
    }
  }
  let mut out = std::mem::take(&mut *res.lock().unwrap());
  let s = st.lock().unwrap();
  out.executions = s.executions;
  out.states = s.states;
  out.max_depth = s.max_depth;
  out.max_preemptions = s.max_preemptions;
  out.capped = s.capped;
  out.yields = s.yields;
  if let Some(d) = &s.diverged {
    out.machinery.push(format!("{}: {}", sc.name, d));
  }
  out
}
