//! E2 scenarios: real `_threads` code, 2-3 controlled threads with short
//! scripts on shared handles, every schedule within the preemption bound.
use crate::driver::{Out, Scenario};
use crate::harness::*;
use rxrust::ops::box_it::BoxOpThreads;
use rxrust::ops::complete_status::CompleteStatus;
use rxrust::prelude::*;
use serde_json::{json, Value};
use std::sync::atomic::{AtomicUsize, Ordering};
use std::sync::{Arc, Mutex};

type Subj = SubjectThreads<Item, Er>;
type Pipe = BoxOpThreads<Item, Er>;

#[derive(Clone, Copy, PartialEq, Eq, Debug)]
pub enum Tier {
  Quick,
  Thorough,
}

#[derive(Clone, Copy, Debug, PartialEq, Eq, Hash)]
pub enum Op {
  /// next(v) on input A / B
  NextA(Item),
  NextB(Item),
  CompleteA,
  CompleteB,
  ErrorA,
  /// subscribe a fresh probe to the pipeline
  Subscribe,
  /// subscribe a probe whose first callback subscribes one more probe
  SubscribeNesting,
  /// unsubscribe the pre-made subscription
  Unsubscribe,
  /// unsubscribe the source subject A itself (through a clone)
  UnsubSubject,
  /// `retain()` on the source subject (housekeeping: prune closed subscribers)
  Retain,
  /// ask the pre-made subscription whether it is closed (only in scripts
  /// without `Unsubscribe`: the handle stays where it is)
  IsClosed,
}

#[derive(Clone, Copy, Debug, PartialEq, Eq)]
pub enum Shape {
  Subject,
  Merge,
  Zip,
  CombineLatest,
  WithLatestFrom,
  TakeUntil,
  SkipUntil,
  Sample,
  MergeAllHot,
  Share,
  Finalize,
  ObserveOn,
  Delay,
  Buffer,
  GroupBy,
  MergeTake,
  Debounce,
  Throttle,
  SubscribeOn,
  DelaySubscription,
}

impl Shape {
  pub fn name(self) -> &'static str {
    match self {
      Shape::Subject => "subject",
      Shape::Merge => "merge_threads",
      Shape::Zip => "zip_threads",
      Shape::CombineLatest => "combine_latest_threads",
      Shape::WithLatestFrom => "with_latest_from_threads",
      Shape::TakeUntil => "take_until_threads",
      Shape::SkipUntil => "skip_until_threads",
      Shape::Sample => "sample_threads",
      Shape::MergeAllHot => "merge_all_threads",
      Shape::Share => "share_threads",
      Shape::Finalize => "finalize_threads",
      Shape::ObserveOn => "observe_on_threads",
      Shape::Delay => "delay_threads",
      Shape::Buffer => "buffer",
      Shape::GroupBy => "group_by+flat_map_threads",
      Shape::MergeTake => "merge_threads.take",
      Shape::Debounce => "debounce",
      Shape::Throttle => "throttle_time",
      Shape::SubscribeOn => "subscribe_on",
      Shape::DelaySubscription => "delay_subscription",
    }
  }
  pub fn two_inputs(self) -> bool {
    matches!(
      self,
      Shape::Merge
        | Shape::Zip
        | Shape::CombineLatest
        | Shape::WithLatestFrom
        | Shape::TakeUntil
        | Shape::SkipUntil
        | Shape::Sample
        | Shape::MergeAllHot
        | Shape::Buffer
        | Shape::MergeTake
    )
  }
  pub fn uses_pool(self) -> bool {
    matches!(
      self,
      Shape::ObserveOn
        | Shape::Delay
        | Shape::Debounce
        | Shape::Throttle
        | Shape::SubscribeOn
        | Shape::DelaySubscription
    )
  }
}

fn pair(p: (Item, Item)) -> Item {
  p.0 * 1000 + p.1
}

thread_local! {
  /// (ctx, stamps of finalizer runs) of the execution in progress
  static FIN_STAMPS: std::cell::RefCell<Option<(Arc<Ctx>, Arc<Mutex<Vec<u64>>>)>> = std::cell::RefCell::new(None);
}

pub fn build(shape: Shape, a: &Subj, b: &Subj, fin: &Arc<AtomicUsize>) -> Pipe {
  let (a, b) = (a.clone(), b.clone());
  match shape {
    Shape::Subject => a.box_it(),
    Shape::Merge => a.merge_threads(b).box_it(),
    Shape::Zip => a.zip_threads(b).map(pair).box_it(),
    Shape::CombineLatest => a.combine_latest_threads(b, |x, y| (x, y)).map(pair).box_it(),
    Shape::WithLatestFrom => a.with_latest_from_threads(b).map(pair).box_it(),
    Shape::TakeUntil => a.take_until_threads(b).box_it(),
    Shape::SkipUntil => a.skip_until_threads(b).box_it(),
    Shape::Sample => a.sample_threads(b).box_it(),
    Shape::MergeAllHot => {
      // every outer item subscribes the hot inner `b`
      a.map(move |_| b.clone()).merge_all_threads(2).box_it()
    }
    Shape::Share => a.share_threads().box_it(),
    Shape::Finalize => {
      let f = fin.clone();
      let sink = FIN_STAMPS.with(|s| s.borrow().clone());
      a.finalize_threads(move || {
        f.fetch_add(1, Ordering::SeqCst);
        if let Some((ctx, v)) = &sink {
          v.lock().unwrap().push(ctx.stamp());
        }
      })
      .box_it()
    }
    Shape::ObserveOn => a.observe_on_threads(pool_scheduler()).box_it(),
    Shape::Delay => a.delay_threads(ticks(1), pool_scheduler()).box_it(),
    Shape::Buffer => a
      .buffer(b.map(|_| ()))
      .map(|v: Vec<Item>| v.iter().fold(0, |acc, x| acc * 100 + x))
      .box_it(),
    // one group only: group_by drains a HashMap on the terminal, and the
    // iteration order of a std HashMap differs from execution to execution,
    // which would make schedules irreproducible
    Shape::GroupBy => a
      .group_by::<_, _, Subj>(|_: &Item| 0)
      .flat_map_threads(|g| g)
      .box_it(),
    Shape::MergeTake => a.merge_threads(b).take(1).box_it(),
    Shape::Debounce => a.debounce(ticks(1), pool_scheduler()).box_it(),
    Shape::Throttle => a
      .throttle_time(ticks(1), rxrust::ops::throttle::ThrottleEdge::all(), pool_scheduler())
      .box_it(),
    Shape::SubscribeOn => a.subscribe_on(pool_scheduler()).box_it(),
    Shape::DelaySubscription => a.delay_subscription(ticks(1), pool_scheduler()).box_it(),
  }
}

#[derive(Clone, Debug)]
struct Call {
  thread: usize,
  op: Op,
  start: u64,
  end: u64,
}

struct Shared {
  /// answers of `IsClosed`: (answer, call start, call end)
  closed_samples: Mutex<Vec<(bool, u64, u64)>>,
  a: Subj,
  b: Subj,
  pipe_src: (Shape, Arc<AtomicUsize>),
  sub0: Mutex<Option<BoxSubscriptionThreads>>,
  late_probes: Mutex<Vec<(TProbe, u64, u64)>>, // probe, subscribe start, subscribe end
  calls: Mutex<Vec<Call>>,
  ctx: Arc<Ctx>,
}

fn run_op(sh: &Arc<Shared>, thread: usize, op: Op) {
  let start = sh.ctx.stamp();
  match op {
    Op::NextA(v) => sh.a.clone().next(v),
    Op::NextB(v) => sh.b.clone().next(v),
    Op::CompleteA => sh.a.clone().complete(),
    Op::CompleteB => sh.b.clone().complete(),
    Op::ErrorA => sh.a.clone().error(7),
    Op::Subscribe => {
      let p = TProbe::new("late", &sh.ctx);
      let pipe = build(sh.pipe_src.0, &sh.a, &sh.b, &sh.pipe_src.1);
      let _u = pipe.actual_subscribe(p.clone());
      let end = sh.ctx.stamp();
      sh.late_probes.lock().unwrap().push((p, start, end));
    }
    Op::SubscribeNesting => {
      let (sh2, start2) = (sh.clone(), start);
      let p = TProbe::with_hook("nesting", &sh.ctx, move || {
        let inner = TProbe::new("nested", &sh2.ctx);
        let pipe = build(sh2.pipe_src.0, &sh2.a, &sh2.b, &sh2.pipe_src.1);
        let s0 = sh2.ctx.stamp();
        let _u = pipe.actual_subscribe(inner.clone());
        let e0 = sh2.ctx.stamp();
        let _ = start2;
        sh2.late_probes.lock().unwrap().push((inner, s0, e0));
      });
      let pipe = build(sh.pipe_src.0, &sh.a, &sh.b, &sh.pipe_src.1);
      let _u = pipe.actual_subscribe(p.clone());
      let end = sh.ctx.stamp();
      sh.late_probes.lock().unwrap().push((p, start, end));
    }
    Op::UnsubSubject => sh.a.clone().unsubscribe(),
    Op::Retain => sh.a.clone().retain(),
    Op::IsClosed => {
      // nobody takes the handle in a script that samples it: borrow it without
      // keeping the (uncontrolled) std mutex across scheduling points
      let ptr: Option<*const BoxSubscriptionThreads> = sh.sub0.lock().unwrap().as_ref().map(|u| u as *const _);
      if let Some(ptr) = ptr {
        let ans = unsafe { (*ptr).is_closed() };
        let end = sh.ctx.stamp();
        sh.closed_samples.lock().unwrap().push((ans, start, end));
      }
    }
    Op::Unsubscribe => {
      let u = sh.sub0.lock().unwrap().take();
      match u {
        Some(u) => u.unsubscribe(),
        // somebody else already consumed the subscription: not a call
        None => return,
      }
    }
  }
  let end = sh.ctx.stamp();
  sh.calls.lock().unwrap().push(Call { thread, op, start, end });
}

#[derive(Clone, Copy, Debug, PartialEq, Eq)]
pub enum Oracle {
  /// C10: overlap, grammar, common order, everything returns
  Serialise,
  /// C02: nothing entered or left a callback after unsubscribe() returned
  Unsub,
  /// C06: per-subscriber delivery rules of a subject
  SubjectRules,
  /// C15: finalizer exactly once
  FinalizeOnce,
}

fn scripts_name(scripts: &[Vec<Op>]) -> String {
  scripts.iter().map(|s| format!("{s:?}")).collect::<Vec<_>>().join(" || ")
}

/// generic scenario: `shape` with one pre-subscribed probe, `scripts[i]` run
/// by thread i
pub fn script_scenario(prop: &str, shape: Shape, scripts: Vec<Vec<Op>>, oracle: Oracle, bound: u32, max_execs: u64) -> Scenario {
  // every emission of a scenario carries its own value: 10 * (thread + 1) + position
  let scripts: Vec<Vec<Op>> = scripts
    .into_iter()
    .enumerate()
    .map(|(t, s)| {
      s.into_iter()
        .enumerate()
        .map(|(k, o)| {
          let v = 10 * (t as Item + 1) + k as Item;
          match o {
            Op::NextA(_) => Op::NextA(v),
            Op::NextB(_) => Op::NextB(v),
            o => o,
          }
        })
        .collect()
    })
    .collect();
  let name = format!("{} {} c<={bound}", shape.name(), scripts_name(&scripts));
  let prop = prop.to_string();
  Scenario {
    name,
    sig: shape.name().to_string(),
    bound,
    max_execs,
    body: Arc::new(move |ctx: &Arc<Ctx>, out: &mut Out| {
      let fin = Arc::new(AtomicUsize::new(0));
      let fin_stamps: Arc<Mutex<Vec<u64>>> = Arc::new(Mutex::new(vec![]));
      FIN_STAMPS.with(|s| *s.borrow_mut() = Some((ctx.clone(), fin_stamps.clone())));
      let a = Subj::default();
      let b = Subj::default();
      let p0 = TProbe::new("p0", ctx);
      // subject scenarios get a second early subscriber to compare orders
      let p1 = TProbe::new("p1", ctx);
      let pipe = build(shape, &a, &b, &fin);
      let sub0 = pipe.actual_subscribe(p0.clone());
      if shape == Shape::Subject || shape == Shape::Share {
        let _ = build(shape, &a, &b, &fin).actual_subscribe(p1.clone());
      }
      let sh = Arc::new(Shared {
        a,
        b,
        pipe_src: (shape, fin.clone()),
        sub0: Mutex::new(Some(sub0)),
        closed_samples: Mutex::new(vec![]),
        late_probes: Mutex::new(vec![]),
        calls: Mutex::new(vec![]),
        ctx: ctx.clone(),
      });
      let mut hs = vec![];
      for (i, script) in scripts.iter().enumerate() {
        let (sh2, script) = (sh.clone(), script.clone());
        hs.push(shuttle::thread::spawn(move || {
          for op in script {
            run_op(&sh2, i, op);
          }
        }));
      }
      for h in hs {
        h.join().unwrap();
      }
      if shape.uses_pool() {
        drain_pool(true);
      }
      let end_stamp = ctx.stamp();
      let calls = sh.calls.lock().unwrap().clone();
      let late = sh.late_probes.lock().unwrap().clone();
      // ------------------------------------------------ oracles
      let mut probes: Vec<&TProbe> = vec![&p0, &p1];
      for (p, _, _) in late.iter() {
        probes.push(p);
      }
      for p in &probes {
        if !p.grammar_ok() {
          ctx.fail(
            format!("{prop}:grammar:{}", shape.name()),
            format!("probe {} saw [{}]", p.name, fmt_notes(&p.notes())),
          );
        }
      }
      // overlap is reported by the probe itself as class "overlap"
      {
        let mut v = ctx.viol.lock().unwrap();
        for x in v.iter_mut() {
          if x.class == "overlap" {
            x.class = format!("{prop}:overlap:{}", shape.name());
          }
        }
      }
      if shape == Shape::Subject || shape == Shape::Share {
        // common order between any two probes of the same subject
        for i in 0..probes.len() {
          for j in i + 1..probes.len() {
            let (x, y) = (probes[i].notes(), probes[j].notes());
            let xr: Vec<&Note> = x.iter().filter(|n| y.contains(n)).collect();
            let yr: Vec<&Note> = y.iter().filter(|n| x.contains(n)).collect();
            if xr != yr {
              ctx.fail(
                format!("{prop}:common-order:{}", shape.name()),
                format!("one subscriber saw [{}], another [{}]", fmt_notes(&x), fmt_notes(&y)),
              );
            }
          }
        }
      }
      match oracle {
        Oracle::Serialise => {}
        Oracle::Unsub => {
          if let Some(u) = calls.iter().find(|c| c.op == Op::Unsubscribe) {
            for e in p0.evs() {
              if e.enter > u.end || e.exit > u.end {
                ctx.fail(
                  format!("{prop}:after-unsubscribe:{}", shape.name()),
                  format!(
                    "unsubscribe() returned at stamp {}, callback {:?} entered at {} and left at {}",
                    u.end, e.note, e.enter, e.exit
                  ),
                );
              }
            }
          }
        }
        Oracle::SubjectRules => {
          // every probe: each emitted item at most once; a probe whose
          // subscribe returned before the emitting call started gets it
          // (unless it was unsubscribed / the subject had terminated), one whose
          // subscribe started after the call returned does not
          let emits: Vec<&Call> = calls.iter().filter(|c| matches!(c.op, Op::NextA(_))).collect();
          let term: Option<&Call> = calls
            .iter()
            .filter(|c| matches!(c.op, Op::CompleteA | Op::ErrorA))
            .min_by_key(|c| c.start);
          // the subject itself unsubscribed: silent end of everything
          let closed: Option<&Call> = calls.iter().filter(|c| c.op == Op::UnsubSubject).min_by_key(|c| c.start);
          let unsub = calls.iter().find(|c| c.op == Op::Unsubscribe);
          let mut plist: Vec<(&TProbe, u64, u64, bool)> = vec![(&p0, 0, 0, true), (&p1, 0, 0, false)];
          for (p, s, e) in late.iter() {
            plist.push((p, *s, *e, false));
          }
          for (p, sub_start, sub_end, is_p0) in plist {
            let notes = p.notes();
            for c in &emits {
              let v = match c.op {
                Op::NextA(v) => v,
                _ => unreachable!(),
              };
              let n = notes.iter().filter(|x| **x == Note::N(v)).count();
              if n > 1 {
                ctx.fail(
                  format!("{prop}:duplicate:{}", shape.name()),
                  format!("probe {} got item {v} {n} times: [{}]", p.name, fmt_notes(&notes)),
                );
              }
              let before_term = term.map_or(true, |t| c.end < t.start) && closed.map_or(true, |t| c.end < t.start);
              let not_unsub = !is_p0 || unsub.map_or(true, |u| c.end < u.start);
              if sub_end <= c.start && before_term && not_unsub && n == 0 {
                ctx.fail(
                  format!("{prop}:missed:{}", shape.name()),
                  format!("probe {} subscribed before next({v}) started but did not get it: [{}]", p.name, fmt_notes(&notes)),
                );
              }
              if sub_start > c.end && n > 0 {
                ctx.fail(
                  format!("{prop}:from-the-past:{}", shape.name()),
                  format!("probe {} subscribed after next({v}) had returned and still got it", p.name),
                );
              }
            }
            // nothing after its terminal / after unsubscribe returned
            if is_p0 {
              if let Some(u) = unsub {
                for e in p.evs() {
                  if e.enter > u.end {
                    ctx.fail(
                      format!("{prop}:after-unsubscribe:{}", shape.name()),
                      format!("probe p0 got {:?} after unsubscribe() had returned", e.note),
                    );
                  }
                }
              }
            }
            // a subscriber present before the terminal started gets it
            if let Some(t) = term {
              let present = sub_end <= t.start
                && (!is_p0 || unsub.map_or(true, |u| t.end < u.start))
                && closed.map_or(true, |x| t.end < x.start);
              let got = notes.iter().filter(|x| x.is_terminal()).count();
              if present && got != 1 {
                ctx.fail(
                  format!("{prop}:terminal:{}", shape.name()),
                  format!("probe {} was subscribed when the terminal was issued, got {got} terminals: [{}]", p.name, fmt_notes(&notes)),
                );
              }
            }
          }
        }
        Oracle::FinalizeOnce => {
          let n = fin.load(Ordering::SeqCst);
          let triggered = calls
            .iter()
            .any(|c| matches!(c.op, Op::CompleteA | Op::ErrorA | Op::Unsubscribe));
          let _ = Op::UnsubSubject;
          // "right after the first of those events, never before it": once the
          // finalizer of the early subscription has run nothing reaches its subscriber
          if let Some(at) = fin_stamps.lock().unwrap().first() {
            for e in p0.evs() {
              if e.enter > *at {
                ctx.fail(
                  format!("{prop}:delivered-after-finalizer:{}", shape.name()),
                  format!("the finalizer ran at stamp {at}, the subscriber got {:?} at {}", e.note, e.enter),
                );
              }
            }
          }
          if n != triggered as usize {
            ctx.fail(
              format!("{prop}:finalize-count:{}", shape.name()),
              format!("the finalizer ran {n} times after {:?}", calls.iter().map(|c| c.op).collect::<Vec<_>>()),
            );
          }
        }
      }
      // ---- is_closed() soundness (C17): once a call has answered true, nothing is
      // delivered any more and no later call answers false
      {
        assert!(
          !(scripts.iter().any(|s| s.contains(&Op::IsClosed)) && scripts.iter().any(|s| s.contains(&Op::Unsubscribe))),
          "MACHINERY: IsClosed and Unsubscribe in one scenario"
        );
        let samples = sh.closed_samples.lock().unwrap().clone();
        for (ans, _s, e) in &samples {
          if *ans {
            for ev in p0.evs() {
              if ev.enter > *e {
                ctx.fail(
                  format!("{prop}:delivered-after-closed:{}", shape.name()),
                  format!("is_closed() answered true at stamp {e}, {:?} was delivered at {}", ev.note, ev.enter),
                );
              }
            }
            for (a2, s2, _) in &samples {
              if !*a2 && *s2 > *e {
                ctx.fail(
                  format!("{prop}:closed-then-open:{}", shape.name()),
                  format!("is_closed() answered true at stamp {e} and false to a call started at {s2}"),
                );
              }
            }
          }
        }
      }
      // ---- final state of two-input combinators once every thread has returned:
      // what their definition prescribes whatever the interleaving was
      {
        let ops: Vec<Op> = calls.iter().map(|c| c.op).collect();
        let undisturbed = !ops.iter().any(|o| matches!(o, Op::Unsubscribe | Op::UnsubSubject | Op::ErrorA | Op::Subscribe | Op::SubscribeNesting));
        let a_done = ops.contains(&Op::CompleteA);
        let b_done = ops.contains(&Op::CompleteB);
        // scripts end with their completion, so every item preceded it
        let a_items: Vec<Item> = ops.iter().filter_map(|o| if let Op::NextA(v) = o { Some(*v) } else { None }).collect();
        let b_items: Vec<Item> = ops.iter().filter_map(|o| if let Op::NextB(v) = o { Some(*v) } else { None }).collect();
        // an input's items are all emitted by the thread that completes it, before
        // it does so: only then does "every item preceded the completion" hold
        let ordered = |is_next: &dyn Fn(&Op) -> bool, done: Op| -> bool {
          let total: usize = scripts.iter().map(|s| s.iter().filter(|o| **o == done).count()).sum();
          if total > 1 {
            return false;
          }
          let owner = scripts.iter().position(|s| s.contains(&done));
          scripts.iter().enumerate().all(|(t, s)| {
            let nexts: Vec<usize> = s.iter().enumerate().filter(|(_, o)| is_next(o)).map(|(i, _)| i).collect();
            match owner {
              None => true,
              Some(ow) => {
                if t != ow {
                  nexts.is_empty()
                } else {
                  let d = s.iter().position(|o| *o == done).unwrap();
                  nexts.iter().all(|i| *i < d) && s.iter().filter(|o| **o == done).count() == 1
                }
              }
            }
          })
        };
        let scripts_end_with_completion = ordered(&|o| matches!(o, Op::NextA(_)), Op::CompleteA)
          && ordered(&|o| matches!(o, Op::NextB(_)), Op::CompleteB);
        if undisturbed && scripts_end_with_completion {
          let notes = p0.notes();
          let completed = notes.last() == Some(&Note::C);
          let want_complete = match shape {
            Shape::Merge | Shape::Zip | Shape::CombineLatest => Some(a_done && b_done),
            Shape::WithLatestFrom | Shape::Sample | Shape::SkipUntil => Some(a_done),
            // buffer whose notifier completes first: unspecified (see DESIGN §3)
            Shape::Buffer => {
              if a_done {
                Some(true)
              } else {
                None
              }
            }
            _ => None,
          };
          if let Some(w) = want_complete {
            // zip / combine_latest may legitimately complete early only when one
            // input completed; never without any completion
            let ok = match shape {
              Shape::Zip | Shape::CombineLatest => !(w && !completed) && !(completed && !a_done && !b_done),
              _ => completed == w,
            };
            if !ok {
              ctx.fail(
                format!("{prop}:completion:{}", shape.name()),
                format!(
                  "inputs completed: a={a_done} b={b_done}; output [{}] is {}completed",
                  fmt_notes(&notes),
                  if completed { "" } else { "not " }
                ),
              );
            }
          }
          if shape == Shape::Merge {
            let mut got: Vec<Item> = notes.iter().filter_map(|n| if let Note::N(v) = n { Some(*v) } else { None }).collect();
            let mut want: Vec<Item> = a_items.iter().chain(b_items.iter()).cloned().collect();
            got.sort();
            want.sort();
            if got != want {
              ctx.fail(
                format!("{prop}:merge-items:{}", shape.name()),
                format!("merged inputs emitted {want:?}, the output delivered {got:?}"),
              );
            }
          }
        }
      }
      // ---- content of the two-input combinators (C04), whatever the interleaving
      // was: the safety half for every history in which each input is driven by
      // one thread (so that its own order is defined), the completeness half for
      // undisturbed histories
      if shape.two_inputs() {
        let ops: Vec<Op> = calls.iter().map(|c| c.op).collect();
        let threads_of = |is: &dyn Fn(&Op) -> bool| -> usize {
          calls.iter().filter(|c| is(&c.op)).map(|c| c.thread).collect::<std::collections::BTreeSet<_>>().len()
        };
        let one_thread_each =
          threads_of(&|o| matches!(o, Op::NextA(_))) <= 1 && threads_of(&|o| matches!(o, Op::NextB(_))) <= 1;
        let a_items: Vec<Item> = ops.iter().filter_map(|o| if let Op::NextA(v) = o { Some(*v) } else { None }).collect();
        let b_items: Vec<Item> = ops.iter().filter_map(|o| if let Op::NextB(v) = o { Some(*v) } else { None }).collect();
        let undisturbed = !ops.iter().any(|o| matches!(o, Op::Unsubscribe | Op::UnsubSubject | Op::ErrorA | Op::Subscribe | Op::SubscribeNesting));
        let a_done = ops.contains(&Op::CompleteA);
        let b_done = ops.contains(&Op::CompleteB);
        // completions issued after the items of the same input (same thread, later position)
        let tidy = scripts.iter().all(|s| {
          let ok = |done: Op, is: &dyn Fn(&Op) -> bool| match s.iter().position(|o| *o == done) {
            Some(d) => s.iter().enumerate().all(|(i, o)| !is(o) || i < d),
            None => true,
          };
          ok(Op::CompleteA, &|o| matches!(o, Op::NextA(_))) && ok(Op::CompleteB, &|o| matches!(o, Op::NextB(_)))
        }) && {
          // an input is completed by the thread that emits it
          let owner = |done: Op, is: &dyn Fn(&Op) -> bool| {
            scripts.iter().all(|s| !s.contains(&done) || scripts.iter().all(|t| std::ptr::eq(s, t) || !t.iter().any(|o| is(o))))
          };
          owner(Op::CompleteA, &|o| matches!(o, Op::NextA(_))) && owner(Op::CompleteB, &|o| matches!(o, Op::NextB(_)))
        };
        let notes = p0.notes();
        let got: Vec<Item> = notes.iter().filter_map(|n| if let Note::N(v) = n { Some(*v) } else { None }).collect();
        let idx = |items: &Vec<Item>, v: Item| items.iter().position(|x| *x == v);
        let mut bad: Option<String> = None;
        if one_thread_each {
          match shape {
            Shape::Zip => {
              for (i, v) in got.iter().enumerate() {
                let want = a_items.get(i).zip(b_items.get(i)).map(|(x, y)| pair((*x, *y)));
                if want != Some(*v) {
                  bad = Some(format!("output #{i} is {v}, the i-th items of the inputs give {want:?}"));
                  break;
                }
              }
              if bad.is_none() && undisturbed && tidy && got.len() != a_items.len().min(b_items.len()) {
                bad = Some(format!("{} pairs delivered, the inputs allow exactly {}", got.len(), a_items.len().min(b_items.len())));
              }
            }
            Shape::CombineLatest | Shape::WithLatestFrom => {
              let mut prev: Option<(usize, usize)> = None;
              for v in &got {
                match (idx(&a_items, v / 1000), idx(&b_items, v % 1000)) {
                  (Some(i), Some(j)) => {
                    if let Some((pi, pj)) = prev {
                      let ok = if shape == Shape::CombineLatest {
                        (i == pi + 1 && j == pj) || (i == pi && j == pj + 1)
                      } else {
                        // once the secondary input has a value every main item is used
                        i == pi + 1 && j >= pj
                      };
                      if !ok {
                        bad = Some(format!("combination ({},{}) after ({},{}) is not what one further arrival gives", a_items[i], b_items[j], a_items[pi], b_items[pj]));
                      }
                    }
                    prev = Some((i, j));
                  }
                  _ => bad = Some(format!("output {v} is not a combination of an a-item and a b-item")),
                }
              }
              if bad.is_none() && shape == Shape::CombineLatest && undisturbed && tidy && !a_items.is_empty() && !b_items.is_empty() {
                let want = pair((*a_items.last().unwrap(), *b_items.last().unwrap()));
                if got.last() != Some(&want) {
                  bad = Some(format!("the last combination delivered is {:?}, the latest values of the inputs give {want}", got.last()));
                }
              }
            }
            Shape::TakeUntil => {
              if got.len() > a_items.len() || got[..] != a_items[..got.len()] {
                bad = Some("the output is not a prefix of the main input".into());
              }
            }
            Shape::SkipUntil => {
              let ok = match got.first().and_then(|v| idx(&a_items, *v)) {
                None => got.is_empty(),
                Some(k) => {
                  k + got.len() <= a_items.len()
                    && a_items[k..k + got.len()] == got[..]
                    && (!(undisturbed && tidy) || k + got.len() == a_items.len())
                }
              };
              if !ok {
                bad = Some("the output is not a gap-free run of the main input reaching to its end".into());
              }
            }
            Shape::Buffer => {
              let mut flat: Vec<Item> = vec![];
              for v in &got {
                let mut b = vec![];
                let mut x = *v;
                while x > 0 {
                  b.push(x % 100);
                  x /= 100;
                }
                b.reverse();
                flat.extend(b);
              }
              if flat.len() > a_items.len() || flat[..] != a_items[..flat.len()] {
                bad = Some(format!("the concatenated buffers {flat:?} are not a prefix of the main input"));
              } else if undisturbed && tidy && a_done && !b_done && flat != a_items {
                bad = Some(format!("the main input completed; the concatenated buffers {flat:?} are not all of it"));
              }
            }
            Shape::Merge | Shape::MergeTake => {
              for items in [&a_items, &b_items] {
                let pos: Vec<usize> = got.iter().filter_map(|v| idx(items, *v)).collect();
                if pos.windows(2).any(|w| w[0] >= w[1]) {
                  bad = Some("one input's items were delivered out of their own order or twice".into());
                }
              }
            }
            _ => {}
          }
        }
        // ---- real-time order: what had returned before a call started is visible
        // to that call (calls of different threads that overlap may go either way)
        if bad.is_none() && one_thread_each {
          let mut ac: Vec<&Call> = calls.iter().filter(|c| matches!(c.op, Op::NextA(_))).collect();
          ac.sort_by_key(|c| c.start);
          let mut bc: Vec<&Call> = calls.iter().filter(|c| matches!(c.op, Op::NextB(_))).collect();
          bc.sort_by_key(|c| c.start);
          let val = |c: &Call| match c.op {
            Op::NextA(v) | Op::NextB(v) => v,
            _ => 0,
          };
          // first terminal / teardown call of any kind: claims are made only for
          // calls that had returned before it started
          let quiet_until = calls
            .iter()
            .filter(|c| !matches!(c.op, Op::NextA(_) | Op::NextB(_) | Op::Subscribe | Op::SubscribeNesting))
            .map(|c| c.start)
            .min()
            .unwrap_or(u64::MAX);
          if shape == Shape::WithLatestFrom {
            // a main item that arrives when the secondary input has delivered a value is used
            for c in ac.iter().filter(|c| c.end < quiet_until) {
              if bc.iter().any(|b| b.end < c.start) && !got.iter().any(|v| v / 1000 == val(c)) {
                bad = Some(format!(
                  "next({}) on the main input started after the secondary input had delivered a value, yet no combination with {} came out",
                  val(c), val(c)
                ));
              }
            }
          }
          match shape {
            Shape::WithLatestFrom | Shape::CombineLatest if bad.is_none() => {
              let mut prev: Option<(usize, usize)> = None;
              for v in &got {
                let (i, j) = (idx(&a_items, v / 1000).unwrap(), idx(&b_items, v % 1000).unwrap());
                // which arrival produced this output
                let by_a = shape == Shape::WithLatestFrom || prev.map_or(true, |(pi, _)| i != pi);
                let by_b = shape == Shape::CombineLatest && prev.map_or(true, |(_, pj)| j != pj);
                // (claims only for calls that had returned before any terminal or
                // teardown call started: an unsubscribe in progress may already have
                // detached one input while the other still delivers)
                if by_a && !(by_b && prev.is_none()) && ac[i].end < quiet_until {
                  // partner values whose call had returned before this a-call started
                  let newest = bc.iter().rposition(|c| c.end < ac[i].start);
                  if let Some(l) = newest {
                    if j < l {
                      bad = Some(format!(
                        "{} was combined with {}, although next({}) on the other input had returned before next({}) started",
                        a_items[i], b_items[j], val(bc[l]), a_items[i]
                      ));
                    }
                  }
                }
                if by_b && !by_a && bc[j].end < quiet_until {
                  let newest = ac.iter().rposition(|c| c.end < bc[j].start);
                  if let Some(l) = newest {
                    if i < l {
                      bad = Some(format!(
                        "{} was combined with {}, although next({}) on the other input had returned before next({}) started",
                        b_items[j], a_items[i], val(ac[l]), b_items[j]
                      ));
                    }
                  }
                }
                prev = Some((i, j));
              }
            }
            Shape::Sample => {
              // a tick releases what is pending: the newest item that had arrived
              // before the tick started (unless an earlier tick already released
              // it) or an item whose arrival overlaps the tick and superseded it
              let evs = p0.evs();
              for t in bc.iter().filter(|t| t.end < quiet_until) {
                if let Some(x) = ac.iter().rev().find(|c| c.end < t.start) {
                  // (or something newer, which had superseded it, was)
                  let xi = idx(&a_items, val(x)).unwrap();
                  let released_before = evs.iter().any(|e| {
                    e.enter < t.start && matches!(e.note, Note::N(v) if idx(&a_items, v).map_or(false, |k| k >= xi))
                  });
                  if released_before {
                    continue;
                  }
                  let overlapping: Vec<Item> =
                    ac.iter().filter(|c| c.start < t.end && c.end > t.start).map(|c| val(c)).collect();
                  let in_tick: Vec<Item> = evs
                    .iter()
                    .filter(|e| e.enter > t.start && e.enter < t.end)
                    .filter_map(|e| if let Note::N(v) = e.note { Some(v) } else { None })
                    .collect();
                  if !in_tick.iter().any(|v| *v == val(x) || overlapping.contains(v)) {
                    bad = Some(format!(
                      "next({}) had returned before the tick {:?} started and had not been released yet; the tick delivered {in_tick:?} (arrivals overlapping the tick: {overlapping:?})",
                      val(x), t.op
                    ));
                  }
                }
              }
            }
            Shape::TakeUntil | Shape::SkipUntil => {
              if let Some(first) = bc.first() {
                for c in ac.iter().filter(|c| c.end < quiet_until) {
                  let before = c.end < first.start;
                  let after = c.start > first.end;
                  let delivered = got.contains(&val(c));
                  let want = if shape == Shape::TakeUntil { before } else { after };
                  let must_not = if shape == Shape::TakeUntil { after } else { before };
                  if (want && !delivered) || (must_not && delivered) {
                    bad = Some(format!(
                      "item {} ({} the notifier's first item) was {}delivered",
                      val(c),
                      if before { "emitted before" } else { "emitted after" },
                      if delivered { "" } else { "not " }
                    ));
                  }
                }
              }
            }
            Shape::Buffer => {
              // everything that had arrived before the last undisturbed tick started is out by now
              if let Some(t) = bc.iter().rev().find(|t| t.end < quiet_until) {
                let mut flat: Vec<Item> = vec![];
                for v in &got {
                  let mut x = *v;
                  let mut b = vec![];
                  while x > 0 {
                    b.push(x % 100);
                    x /= 100;
                  }
                  flat.extend(b);
                }
                for c in ac.iter().filter(|c| c.end < t.start) {
                  if !flat.contains(&val(c)) {
                    bad = Some(format!("next({}) had returned before the tick {:?} started, yet it is in no buffer", val(c), t.op));
                  }
                }
              }
            }
            _ => {}
          }
        }
        if let Some(b) = bad {
          ctx.fail(
            format!("{prop}:content:{}", shape.name()),
            format!("a emitted {a_items:?}, b emitted {b_items:?}, output [{}]: {b}", fmt_notes(&notes)),
          );
        }
      }
      // ---- transparent single-input shapes: what one emitting thread put in comes
      // out once, in order; all of it when nothing disturbed the subscription
      if matches!(shape, Shape::Share | Shape::Finalize | Shape::GroupBy) {
        let a_threads: std::collections::BTreeSet<usize> =
          calls.iter().filter(|c| matches!(c.op, Op::NextA(_))).map(|c| c.thread).collect();
        let first_end = calls
          .iter()
          .filter(|c| matches!(c.op, Op::CompleteA | Op::ErrorA | Op::Unsubscribe | Op::UnsubSubject))
          .map(|c| c.start)
          .min()
          .unwrap_or(u64::MAX);
        let mut ac: Vec<&Call> = calls.iter().filter(|c| matches!(c.op, Op::NextA(_))).collect();
        ac.sort_by_key(|c| c.start);
        let val = |c: &Call| if let Op::NextA(v) = c.op { v } else { 0 };
        let a_items: Vec<Item> = ac.iter().map(|c| val(c)).collect();
        let notes = p0.notes();
        let got: Vec<Item> = notes.iter().filter_map(|n| if let Note::N(v) = n { Some(*v) } else { None }).collect();
        let mut bad: Option<String> = None;
        for v in &got {
          if !a_items.contains(v) {
            bad = Some(format!("item {v} was never emitted"));
          } else if got.iter().filter(|x| *x == v).count() > 1 {
            bad = Some(format!("item {v} delivered more than once"));
          }
        }
        if bad.is_none() && a_threads.len() <= 1 {
          let pos: Vec<usize> = got.iter().map(|v| a_items.iter().position(|x| x == v).unwrap()).collect();
          if pos.windows(2).any(|w| w[0] >= w[1]) {
            bad = Some("items delivered out of order".into());
          }
        }
        if bad.is_none() {
          // an item whose call had returned before any terminal / teardown call started
          for c in ac.iter().filter(|c| c.end < first_end) {
            if !got.contains(&val(c)) {
              bad = Some(format!("next({}) had returned before any terminal or unsubscribe started, yet it was not delivered", val(c)));
            }
          }
        }
        if let Some(b) = bad {
          ctx.fail(
            format!("{prop}:content:{}", shape.name()),
            format!("source emitted {a_items:?}, the early subscriber saw [{}]: {b}", fmt_notes(&notes)),
          );
        }
      }
      // ---- scheduler-moving operators (C07): every notification is its own pool
      // task; whatever order the pool runs them in (re-sequencing is the known
      // finding of engine E1), once all of them have run every item of a source
      // that did not terminate and was not unsubscribed has been delivered, once
      if matches!(shape, Shape::ObserveOn | Shape::Delay) {
        // (retain() and is_closed() are housekeeping: they disturb nothing)
        let quiet = !calls
          .iter()
          .any(|c| !matches!(c.op, Op::NextA(_) | Op::Retain | Op::IsClosed));
        let mut want: Vec<Item> = calls.iter().filter_map(|c| if let Op::NextA(v) = c.op { Some(v) } else { None }).collect();
        let notes = p0.notes();
        let mut got: Vec<Item> = notes.iter().filter_map(|n| if let Note::N(v) = n { Some(*v) } else { None }).collect();
        want.sort();
        got.sort();
        let dup = got.windows(2).any(|w| w[0] == w[1]);
        let invented = got.iter().any(|v| !want.contains(v));
        if dup || invented || (quiet && got != want) {
          ctx.fail(
            format!("{prop}:lost-duplicated-or-invented:{}", shape.name()),
            format!("source emitted {want:?} (no terminal, no unsubscribe: {quiet}), every scheduled task has run, delivered [{}]", fmt_notes(&notes)),
          );
        }
      }
      // ---- rate limiting (C09): only source items, each at most once, in source
      // order; an undisturbed source that completed got its last item through
      // (debounce: always the final one; throttle with both edges: the first of
      // the first window and the final one), then the completion
      if matches!(shape, Shape::Debounce | Shape::Throttle | Shape::Sample) {
        let ops: Vec<Op> = calls.iter().map(|c| c.op).collect();
        let a_threads: std::collections::BTreeSet<usize> =
          calls.iter().filter(|c| matches!(c.op, Op::NextA(_))).map(|c| c.thread).collect();
        // emission order of the source is only defined when one thread emits
        let mut a_calls: Vec<&Call> = calls.iter().filter(|c| matches!(c.op, Op::NextA(_))).collect();
        a_calls.sort_by_key(|c| c.start);
        let a_items: Vec<Item> = a_calls.iter().map(|c| if let Op::NextA(v) = c.op { v } else { 0 }).collect();
        let notes = p0.notes();
        let got: Vec<Item> = notes.iter().filter_map(|n| if let Note::N(v) = n { Some(*v) } else { None }).collect();
        let mut bad: Option<String> = None;
        for v in &got {
          if !a_items.contains(v) {
            bad = Some(format!("item {v} was never emitted by the source"));
          } else if got.iter().filter(|x| *x == v).count() > 1 {
            bad = Some(format!("item {v} delivered more than once"));
          }
        }
        if bad.is_none() && a_threads.len() <= 1 {
          let pos: Vec<usize> = got.iter().map(|v| a_items.iter().position(|x| x == v).unwrap()).collect();
          if pos.windows(2).any(|w| w[0] >= w[1]) {
            bad = Some("items delivered out of source order".into());
          }
        }
        if let Some(b) = bad {
          ctx.fail(
            format!("{prop}:invented-duplicated-or-reordered:{}", shape.name()),
            format!("source emitted {a_items:?}, output [{}]: {b}", fmt_notes(&notes)),
          );
        }
        let undisturbed = !ops.iter().any(|o| matches!(o, Op::Unsubscribe | Op::UnsubSubject | Op::ErrorA | Op::Subscribe | Op::SubscribeNesting));
        let one_completion = scripts.iter().map(|s| s.iter().filter(|o| **o == Op::CompleteA).count()).sum::<usize>() == 1;
        let owner_last = scripts.iter().all(|s| match s.iter().position(|o| *o == Op::CompleteA) {
          Some(d) => s.iter().enumerate().all(|(i, o)| !matches!(o, Op::NextA(_)) || i < d),
          None => !s.iter().any(|o| matches!(o, Op::NextA(_))),
        });
        let no_completion = !ops.contains(&Op::CompleteA);
        if shape != Shape::Sample
          && undisturbed
          && ((one_completion && owner_last) || no_completion)
          && a_threads.len() == 1
          && !a_items.is_empty()
        {
          // every timer task has run by now (the pool is drained): the final item
          // was the last of its window / had its quiet period, completed or not
          let last_ok = got.last() == a_items.last();
          let first_ok = shape != Shape::Throttle || got.first() == a_items.first();
          let term_ok = if no_completion { !notes.iter().any(|n| n.is_terminal()) } else { notes.last() == Some(&Note::C) };
          if !(last_ok && first_ok && term_ok) {
            ctx.fail(
              format!("{prop}:final-item-or-completion:{}", shape.name()),
              format!(
                "source emitted {a_items:?}{}, every timer has fired; output [{}] (expected {}the final item{})",
                if no_completion { "" } else { " and completed" },
                fmt_notes(&notes),
                if shape == Shape::Throttle { "the first item, " } else { "" },
                if no_completion { "" } else { ", then the completion" }
              ),
            );
          }
        }
      }
      let _ = end_stamp;
      let mut d = 0;
      for p in &probes {
        d += p.notes().len();
        out.note(&p.notes());
      }
      out.delivered = d as u64;
      out.trace.push(format!(
        "p0 [{}] p1 [{}] late {:?}",
        fmt_notes(&p0.notes()),
        fmt_notes(&p1.notes()),
        late.iter().map(|(p, ..)| fmt_notes(&p.notes())).collect::<Vec<_>>()
      ));
      let mut cs = calls.clone();
      cs.sort_by_key(|c| c.start);
      out.trace.push(format!(
        "calls {:?}",
        cs.iter().map(|c| format!("t{}:{:?}@{}..{}", c.thread, c.op, c.start, c.end)).collect::<Vec<_>>()
      ));
    }),
  }
}

// ----------------------------------------------------------- BehaviorSubject

pub fn behavior_scenario(two_producers: bool, bound: u32, max_execs: u64) -> Scenario {
  let name = format!(
    "BehaviorSubject<SubjectThreads> {} + late subscriber + peek c<={bound}",
    if two_producers { "next(1) || next(2)" } else { "next(1) next(2)" }
  );
  Scenario {
    name,
    sig: if two_producers { "two-producers".into() } else { "one-producer".into() },
    bound,
    max_execs,
    body: Arc::new(move |ctx: &Arc<Ctx>, out: &mut Out| {
      let bs = BehaviorSubject::<Item, Subj>::new(9);
      let p0 = TProbe::new("p0", ctx);
      let _u0 = bs.clone().actual_subscribe(p0.clone());
      let late = TProbe::new("late", ctx);
      let mut hs = vec![];
      if two_producers {
        for v in [1, 2] {
          let mut b = bs.clone();
          hs.push(shuttle::thread::spawn(move || b.next(v)));
        }
      } else {
        let mut b = bs.clone();
        hs.push(shuttle::thread::spawn(move || {
          b.next(1);
          b.next(2);
        }));
      }
      let (b2, l2) = (bs.clone(), late.clone());
      hs.push(shuttle::thread::spawn(move || {
        let _u = b2.actual_subscribe(l2);
      }));
      for h in hs {
        h.join().unwrap();
      }
      let peek = bs.peek();
      let order = p0.notes();
      let lnotes = late.notes();
      let cls = if two_producers { "two-producers" } else { "one-producer" };
      // the most recent value is the one delivered last in the common order
      if order.last() != Some(&Note::N(peek)) {
        if !order.contains(&Note::N(peek)) {
          // not explained by the store/broadcast window: that can only expose a
          // value that is (being) delivered
          ctx.fail(
            format!("C12:peek-never-delivered:{cls}"),
            format!("subscribers saw [{}] but peek() = {peek}", fmt_notes(&order)),
          );
        } else {
          ctx.fail(
            format!("C12:peek-vs-last-delivered:{cls}"),
            format!("subscribers saw [{}] but peek() = {peek}", fmt_notes(&order)),
          );
        }
      }
      // late subscriber: [v] + exactly the items delivered after v in the common order
      match lnotes.first() {
        None => ctx.fail(format!("C12:late-empty:{cls}"), "the late subscriber got nothing"),
        Some(first) => {
          let rest = &lnotes[1..];
          match order.iter().position(|n| n == first) {
            None => ctx.fail(
              format!("C12:late-first-value-never-current:{cls}"),
              format!("common order [{}], late subscriber saw [{}]", fmt_notes(&order), fmt_notes(&lnotes)),
            ),
            Some(i) => {
              let later = &order[i + 1..];
              // joined between a producer's store and its broadcast: the value handed
              // over as "current" is still to be broadcast, so everything broadcast
              // after the join — a suffix of the common order that contains that value
              // again — follows
              let stored_not_yet_broadcast = (1..=i).any(|k| order[k..] == *rest);
              if stored_not_yet_broadcast {
                ctx.fail(
                  format!("C12:late-subscriber-inflight-twice:{cls}"),
                  format!(
                    "common order [{}], late subscriber saw [{}]: the value handed over on joining was broadcast again afterwards",
                    fmt_notes(&order),
                    fmt_notes(&lnotes)
                  ),
                );
              }
              let rest: &[Note] = if stored_not_yet_broadcast { later } else { rest };
              if later != rest {
                // the known window only ever *loses* in-flight items: what did
                // arrive must be later items, each once, in the common order
                let mut pos = 0usize;
                let mut is_subseq = true;
                for x in rest {
                  match later[pos..].iter().position(|y| y == x) {
                    Some(k) => pos += k + 1,
                    None => {
                      is_subseq = false;
                      break;
                    }
                  }
                }
                let clause = if is_subseq { "late-subscriber" } else { "late-subscriber-corrupt" };
                ctx.fail(
                  format!("C12:{clause}:{cls}"),
                  format!(
                    "common order [{}], late subscriber saw [{}]: not `current value, then exactly the later items`",
                    fmt_notes(&order),
                    fmt_notes(&lnotes)
                  ),
                );
              }
            }
          }
        }
      }
      out.delivered = (order.len() + lnotes.len()) as u64;
      out.note(&order);
      out.note(&lnotes);
      out.note(&peek);
      out.trace.push(format!("p0 [{}] late [{}] peek {peek}", fmt_notes(&order), fmt_notes(&lnotes)));
    }),
  }
}

// ----------------------------------------------------------- waiters (C14)

#[derive(Clone, Copy, Debug, PartialEq, Eq)]
pub enum Waiter {
  WaitForEnd,
  ToFuture,
  ToStream,
  /// to_future() polled once (pending) by the thread that made it, then handed
  /// to another thread that waits for it
  ToFutureMoved,
}

pub fn waiter_scenario(w: Waiter, items: usize, fail: bool, bound: u32, max_execs: u64) -> Scenario {
  let name = format!("{w:?} waiter || producer {items} items then {} c<={bound}", if fail { "error" } else { "complete" });
  Scenario {
    name,
    sig: format!("{w:?}"),
    bound,
    max_execs,
    body: Arc::new(move |ctx: &Arc<Ctx>, out: &mut Out| {
      let src = Subj::default();
      let got: Arc<Mutex<Vec<String>>> = Arc::new(Mutex::new(vec![]));
      let waiter = match w {
        Waiter::WaitForEnd => {
          let (o, st) = src.clone().complete_status();
          let p = TProbe::new("p0", ctx);
          let _u = o.actual_subscribe(p);
          let g = got.clone();
          shuttle::thread::spawn(move || {
            CompleteStatus::wait_for_end(st.clone());
            g.lock().unwrap().push(format!("closed={}", st.is_closed()));
          })
        }
        Waiter::ToFuture => {
          let f = src.clone().to_future();
          let g = got.clone();
          shuttle::thread::spawn(move || {
            let r = shuttle::future::block_on(f);
            g.lock().unwrap().push(format!("{r:?}"));
          })
        }
        Waiter::ToFutureMoved => {
          let mut f = Box::pin(src.clone().to_future());
          {
            let w = futures::task::noop_waker();
            let mut cx = std::task::Context::from_waker(&w);
            let _ = std::future::Future::poll(f.as_mut(), &mut cx);
          }
          let g = got.clone();
          shuttle::thread::spawn(move || {
            let r = shuttle::future::block_on(f);
            g.lock().unwrap().push(format!("{r:?}"));
          })
        }
        Waiter::ToStream => {
          let mut s = src.clone().to_stream();
          let g = got.clone();
          shuttle::thread::spawn(move || {
            use futures::StreamExt;
            while let Some(x) = shuttle::future::block_on(s.next()) {
              g.lock().unwrap().push(format!("{x:?}"));
            }
            g.lock().unwrap().push("end".into());
          })
        }
      };
      let mut s2 = src.clone();
      let producer = shuttle::thread::spawn(move || {
        for i in 0..items {
          s2.next(i as Item + 1);
        }
        if fail {
          s2.error(7);
        } else {
          s2.complete();
        }
      });
      producer.join().unwrap();
      // a waiter that is never woken shows up as a deadlock of this join
      waiter.join().unwrap();
      let g = got.lock().unwrap().clone();
      // and the reported outcome is the documented one
      let exp: Vec<String> = match w {
        Waiter::WaitForEnd => vec!["closed=true".into()],
        Waiter::ToFuture | Waiter::ToFutureMoved => vec![match (items, fail) {
          (0, false) => "Err(Empty)".to_string(),
          (1, false) => "Ok(Ok(1))".to_string(),
          (_, false) => "Err(MultipleValues)".to_string(),
          (0, true) => "Ok(Err(7))".to_string(),
          (_, true) => "Err(MultipleValues)".to_string(),
        }],
        Waiter::ToStream => {
          let mut v: Vec<String> = (0..items).map(|i| format!("Ok({})", i + 1)).collect();
          if fail {
            v.push("Err(7)".into());
          }
          v.push("end".into());
          v
        }
      };
      if g != exp {
        ctx.fail(format!("C14:wrong-outcome:{w:?}"), format!("waiter saw {g:?}, expected {exp:?}"));
      }
      out.delivered = g.len() as u64;
      out.note(&g);
      out.trace.push(format!("waiter saw {g:?}"));
    }),
  }
}

// ----------------------------------------------------------- flattening (C05 / C10)

/// outer subject emitting hot inner subjects through merge_all_threads(limit):
/// inner 0 is already running; one thread delivers inner 1 (and optionally
/// inner 2) and completes the outer, another drives and completes inner 0.
/// Afterwards the remaining inners are driven and completed sequentially.
pub fn flat_scenario(prop: &str, limit: usize, n_inner: usize, bound: u32, max_execs: u64) -> Scenario {
  let name = format!("merge_all_threads({limit}) over {n_inner} hot inners: outer delivers || inner 0 completes c<={bound}");
  let prop = prop.to_string();
  Scenario {
    name,
    sig: format!("merge_all_threads({limit})"),
    bound,
    max_execs,
    body: Arc::new(move |ctx: &Arc<Ctx>, out: &mut Out| {
      let outer = SubjectThreads::<usize, Er>::default();
      let inners: Vec<Subj> = (0..n_inner).map(|_| Subj::default()).collect();
      let table = inners.clone();
      let p0 = TProbe::new("p0", ctx);
      let _u = outer
        .clone()
        .map(move |i: usize| table[i].clone())
        .merge_all_threads(limit)
        .actual_subscribe(p0.clone());
      outer.clone().next(0);
      let mut o2 = outer.clone();
      let t1 = shuttle::thread::spawn(move || {
        for i in 1..n_inner {
          o2.next(i);
        }
        o2.complete();
      });
      let mut s0 = inners[0].clone();
      let t2 = shuttle::thread::spawn(move || {
        s0.next(100);
        s0.complete();
      });
      t1.join().unwrap();
      t2.join().unwrap();
      for (i, s) in inners.iter().enumerate().skip(1) {
        let mut s = s.clone();
        s.next(100 + i as Item);
        s.complete();
      }
      let got = p0.notes();
      // every inner was subscribed before its item was emitted, inner 0 before
      // the threads started: each item exactly once, then completion
      let mut exp: Vec<Note> = (0..n_inner).map(|i| Note::N(100 + i as Item)).collect();
      exp.push(Note::C);
      let mut sorted = got.clone();
      sorted.sort_by_key(|n| match n {
        Note::N(v) => *v,
        _ => i64::MAX,
      });
      if sorted != exp || got.last() != Some(&Note::C) {
        ctx.fail(
          format!("{prop}:flatten-lost-or-duplicated:merge_all_threads"),
          format!("limit {limit}: expected each of {n_inner} inner items once and then completion, got [{}]", fmt_notes(&got)),
        );
      }
      {
        let mut v = ctx.viol.lock().unwrap();
        for x in v.iter_mut() {
          if x.class == "overlap" {
            x.class = format!("{prop}:overlap:merge_all_threads");
          }
        }
      }
      out.delivered = got.len() as u64;
      out.note(&got);
      out.trace.push(format!("p0 [{}]", fmt_notes(&got)));
    }),
  }
}

/// merge_all_threads(2) over two running hot inners that fail on two threads
pub fn flat_fail_scenario(prop: &str, bound: u32, max_execs: u64) -> Scenario {
  let prop = prop.to_string();
  Scenario {
    name: format!("merge_all_threads(2) over 2 hot inners: inner 0 fails || inner 1 fails c<={bound}"),
    sig: "merge_all_threads(2)".into(),
    bound,
    max_execs,
    body: Arc::new(move |ctx: &Arc<Ctx>, out: &mut Out| {
      let outer = SubjectThreads::<usize, Er>::default();
      let inners: Vec<Subj> = (0..2).map(|_| Subj::default()).collect();
      let table = inners.clone();
      let p0 = TProbe::new("p0", ctx);
      let _u = outer
        .clone()
        .map(move |i: usize| table[i].clone())
        .merge_all_threads(2)
        .actual_subscribe(p0.clone());
      outer.clone().next(0);
      outer.clone().next(1);
      let hs: Vec<_> = inners
        .iter()
        .enumerate()
        .map(|(i, s)| {
          let mut s = s.clone();
          shuttle::thread::spawn(move || {
            s.next(100 + i as Item);
            s.error(7);
          })
        })
        .collect();
      for h in hs {
        h.join().unwrap();
      }
      outer.clone().next(0);
      let got = p0.notes();
      let errs = got.iter().filter(|n| matches!(n, Note::Err(_))).count();
      let items: Vec<Item> = got.iter().filter_map(|n| if let Note::N(v) = n { Some(*v) } else { None }).collect();
      if errs != 1 || !matches!(got.last(), Some(Note::Err(_))) || items.iter().any(|v| *v != 100 && *v != 101) || items.len() > 2 {
        ctx.fail(
          format!("{prop}:flatten-failing-inners:merge_all_threads"),
          format!("two running inners emitted one item each and failed: expected at most those two items and then exactly one error, got [{}]", fmt_notes(&got)),
        );
      }
      out.delivered = got.len() as u64;
      out.note(&got);
      out.trace.push(format!("p0 [{}]", fmt_notes(&got)));
    }),
  }
}

/// concat (merge_all_threads(1)) over three hot inners, two of them queued: one
/// thread completes inner 0 (which starts inner 1), one completes inner 1 (which,
/// if it was started, starts inner 2), one unsubscribes the whole pipeline.
pub fn flat_cut_scenario(prop: &str, bound: u32, max_execs: u64) -> Scenario {
  let prop = prop.to_string();
  Scenario {
    name: format!("merge_all_threads(1) over 3 hot inners: inner 0 completes || inner 1 completes || unsubscribe c<={bound}"),
    sig: "merge_all_threads(1)".into(),
    bound,
    max_execs,
    body: Arc::new(move |ctx: &Arc<Ctx>, out: &mut Out| {
      let outer = SubjectThreads::<usize, Er>::default();
      let inners: Vec<Subj> = (0..3).map(|_| Subj::default()).collect();
      let table = inners.clone();
      let p0 = TProbe::new("p0", ctx);
      let u = outer
        .clone()
        .map(move |i: usize| table[i].clone())
        .merge_all_threads(1)
        .actual_subscribe(p0.clone());
      for i in 0..3 {
        outer.clone().next(i);
      }
      let mut hs = vec![];
      for i in 0..2 {
        let mut s = inners[i].clone();
        hs.push(shuttle::thread::spawn(move || {
          s.next(100 + i as Item);
          s.complete();
        }));
      }
      let cut = Arc::new(AtomicUsize::new(0));
      let (c2, ctx2) = (cut.clone(), ctx.clone());
      let hu = shuttle::thread::spawn(move || {
        u.unsubscribe();
        c2.store(ctx2.stamp() as usize, Ordering::SeqCst);
      });
      for h in hs {
        h.join().unwrap();
      }
      hu.join().unwrap();
      for s in &inners {
        let mut s = s.clone();
        s.next(200);
      }
      let end = cut.load(Ordering::SeqCst) as u64;
      if let Some(e) = p0.evs().iter().find(|e| e.enter > end) {
        ctx.fail(
          format!("{prop}:after-unsubscribe:merge_all_threads"),
          format!("{:?} was delivered after unsubscribe() had returned: [{}]", e.note, fmt_notes(&p0.notes())),
        );
      }
      let got = p0.notes();
      out.delivered = got.len() as u64 + 1;
      out.note(&got);
      out.trace.push(format!("p0 [{}]", fmt_notes(&got)));
    }),
  }
}

// ----------------------------------------------------------- scheduler tasks (C19)

#[derive(Clone)]
pub struct TaskArgs {
  ctx: Arc<Ctx>,
  inside: Arc<shuttle::sync::atomic::AtomicBool>,
  /// (start stamp, end stamp) of every run of the body
  runs: Arc<Mutex<Vec<(u64, u64)>>>,
  produced: Arc<std::sync::atomic::AtomicBool>,
}

#[derive(Clone)]
pub struct Produced(Arc<std::sync::atomic::AtomicBool>);
impl Subscription for Produced {
  fn unsubscribe(self) {
    self.0.store(true, Ordering::SeqCst);
  }
  fn is_closed(&self) -> bool {
    self.0.load(Ordering::SeqCst)
  }
}

fn task_body_common(a: &TaskArgs) {
  let start = a.ctx.stamp();
  // two controlled steps inside the body: another thread may run in between
  a.inside.store(true, Ordering::SeqCst);
  a.inside.store(false, Ordering::SeqCst);
  let end = a.ctx.stamp();
  a.runs.lock().unwrap().push((start, end));
}
fn task_body_sub(a: TaskArgs) -> rxrust::scheduler::SubscribeReturn<Produced> {
  task_body_common(&a);
  rxrust::scheduler::SubscribeReturn::new(Produced(a.produced.clone()))
}
fn task_body_plain(a: TaskArgs) -> rxrust::scheduler::NormalReturn<()> {
  task_body_common(&a);
  rxrust::scheduler::NormalReturn::new(())
}

/// a one-shot task on the controlled pool against a thread cancelling its handle
pub fn task_scenario(subscribing: bool, delayed: bool, bound: u32, max_execs: u64) -> Scenario {
  use rxrust::scheduler::{OnceTask, Scheduler};
  let name = format!(
    "{} one-shot task{} || unsubscribe(handle) c<={bound}",
    if subscribing { "subscribing" } else { "plain" },
    if delayed { " with a delay" } else { "" }
  );
  Scenario {
    name,
    sig: format!("task:{}", if subscribing { "subscribing" } else { "plain" }),
    bound,
    max_execs,
    body: Arc::new(move |ctx: &Arc<Ctx>, out: &mut Out| {
      let args = TaskArgs {
        ctx: ctx.clone(),
        inside: Arc::new(shuttle::sync::atomic::AtomicBool::new(false)),
        runs: Arc::new(Mutex::new(vec![])),
        produced: Arc::new(std::sync::atomic::AtomicBool::new(false)),
      };
      let sched = pool_scheduler();
      let d = if delayed { Some(ticks(1)) } else { None };
      let seen_inside = Arc::new(std::sync::atomic::AtomicBool::new(false));
      let returned_at = Arc::new(AtomicUsize::new(0));
      let (a2, si, ra, cx) = (args.clone(), seen_inside.clone(), returned_at.clone(), ctx.clone());
      let t = if subscribing {
        let h = sched.schedule(OnceTask::new(task_body_sub, args.clone()), d);
        shuttle::thread::spawn(move || {
          h.unsubscribe();
          ra.store(cx.stamp() as usize, Ordering::SeqCst);
          si.store(a2.inside.load(Ordering::SeqCst), Ordering::SeqCst);
        })
      } else {
        let h = sched.schedule(OnceTask::new(task_body_plain, args.clone()), d);
        shuttle::thread::spawn(move || {
          h.unsubscribe();
          ra.store(cx.stamp() as usize, Ordering::SeqCst);
          si.store(a2.inside.load(Ordering::SeqCst), Ordering::SeqCst);
        })
      };
      t.join().unwrap();
      drain_pool(false);
      let runs = args.runs.lock().unwrap().clone();
      let ret = returned_at.load(Ordering::SeqCst) as u64;
      if runs.len() > 1 {
        ctx.fail("C19:ran-twice", format!("the body ran {} times", runs.len()));
      }
      if seen_inside.load(Ordering::SeqCst) {
        ctx.fail("C19:still-running-after-unsubscribe", "unsubscribe() returned while the task body was still running");
      }
      for (start, end) in &runs {
        if *start > ret {
          ctx.fail("C19:started-after-unsubscribe", format!("unsubscribe() returned at stamp {ret}, the body started at {start}"));
        } else if *end > ret {
          ctx.fail("C19:still-running-after-unsubscribe", format!("unsubscribe() returned at stamp {ret}, the body ended at {end}"));
        }
      }
      if subscribing && !runs.is_empty() && !args.produced.load(Ordering::SeqCst) {
        ctx.fail(
          "C19:produced-subscription-left-open",
          "the body ran and produced a subscription; cancelling the handle did not unsubscribe it",
        );
      }
      out.delivered = runs.len() as u64;
      out.note(&runs.len());
      out.note(&args.produced.load(Ordering::SeqCst));
      out.trace.push(format!("runs {runs:?} unsubscribe returned at {ret}"));
    }),
  }
}

// ----------------------------------------------------------- composite subscription (C17)

#[derive(Clone, Default)]
pub struct Child(Arc<std::sync::atomic::AtomicBool>);
impl Subscription for Child {
  fn unsubscribe(self) {
    self.0.store(true, Ordering::SeqCst);
  }
  fn is_closed(&self) -> bool {
    self.0.load(Ordering::SeqCst)
  }
}

/// MultiSubscriptionThreads: `n_append` threads append one live child each while
/// another thread unsubscribes the composite through a clone
pub fn composite_scenario(n_append: usize, bound: u32, max_execs: u64) -> Scenario {
  Scenario {
    name: format!("MultiSubscriptionThreads: {n_append} x append(live child) || unsubscribe c<={bound}"),
    sig: "MultiSubscriptionThreads".into(),
    bound,
    max_execs,
    body: Arc::new(move |ctx: &Arc<Ctx>, out: &mut Out| {
      let comp = MultiSubscriptionThreads::default();
      let kids: Vec<Child> = (0..n_append).map(|_| Child::default()).collect();
      let mut hs = vec![];
      for k in kids.iter().cloned() {
        let mut c = comp.clone();
        hs.push(shuttle::thread::spawn(move || c.append(BoxSubscriptionThreads::new(k))));
      }
      let c2 = comp.clone();
      hs.push(shuttle::thread::spawn(move || c2.unsubscribe()));
      for h in hs {
        h.join().unwrap();
      }
      // whatever the order was: the composite has been unsubscribed, so it
      // reports closed and no child may be left running
      if !comp.is_closed() {
        ctx.fail("C17:composite-open-after-unsubscribe:MultiSubscriptionThreads", "a remaining handle reports open after unsubscribe() returned");
      }
      for (i, k) in kids.iter().enumerate() {
        if !k.is_closed() {
          ctx.fail(
            "C17:child-left-running:MultiSubscriptionThreads",
            format!("child {i}: its append() and the composite's unsubscribe() have both returned, the child was never unsubscribed"),
          );
        }
      }
      out.delivered = kids.len() as u64;
      out.note(&kids.iter().map(|k| k.is_closed()).collect::<Vec<_>>());
      out.trace.push(format!("children unsubscribed: {:?}", kids.iter().map(|k| k.is_closed()).collect::<Vec<_>>()));
    }),
  }
}

// ----------------------------------------------------------- share (C11)

/// share_threads over a hot source behind a counting tap: two threads join,
/// then the subscribers leave one after the other
pub fn share_scenario(bound: u32, max_execs: u64) -> Scenario {
  Scenario {
    name: format!("share_threads: subscribe A || subscribe B, then A leaves, emit, B leaves, emit c<={bound}"),
    sig: "share_threads".into(),
    bound,
    max_execs,
    body: Arc::new(move |ctx: &Arc<Ctx>, out: &mut Out| {
      let mut src = Subj::default();
      let taps = Arc::new(AtomicUsize::new(0));
      let subs = Arc::new(AtomicUsize::new(0));
      let (t2, s2, srcc) = (taps.clone(), subs.clone(), src.clone());
      let shared = observable::defer(move || {
        s2.fetch_add(1, Ordering::SeqCst);
        srcc.clone()
      })
      .tap(move |_| {
        t2.fetch_add(1, Ordering::SeqCst);
      })
      .share_threads();
      let (pa, pb) = (TProbe::new("a", ctx), TProbe::new("b", ctx));
      let (sa, pa2) = (shared.clone(), pa.clone());
      let ta = shuttle::thread::spawn(move || sa.actual_subscribe(pa2));
      let (sb, pb2) = (shared.clone(), pb.clone());
      let tb = shuttle::thread::spawn(move || sb.actual_subscribe(pb2));
      let ua = ta.join().unwrap();
      let ub = tb.join().unwrap();
      if subs.load(Ordering::SeqCst) != 1 {
        ctx.fail("C11:source-subscriptions:share_threads", format!("source subscribed {} times", subs.load(Ordering::SeqCst)));
      }
      src.next(1);
      ua.unsubscribe();
      src.next(2);
      ub.unsubscribe();
      let taps_at_end = taps.load(Ordering::SeqCst);
      src.next(3);
      if pa.notes() != vec![Note::N(1)] || pb.notes() != vec![Note::N(1), Note::N(2)] {
        ctx.fail(
          "C11:multicast:share_threads",
          format!("A (present for 1) saw [{}], B (present for 1 and 2) saw [{}]", fmt_notes(&pa.notes()), fmt_notes(&pb.notes())),
        );
      }
      if taps.load(Ordering::SeqCst) != taps_at_end {
        ctx.fail("C11:driven-after-last-unsubscribe:share_threads", "the upstream tap ran after the last subscriber had left");
      }
      out.delivered = (pa.notes().len() + pb.notes().len()) as u64;
      out.note(&pa.notes());
      out.note(&pb.notes());
      out.trace.push(format!("A [{}] B [{}] taps {}", fmt_notes(&pa.notes()), fmt_notes(&pb.notes()), taps.load(Ordering::SeqCst)));
    }),
  }
}

// ----------------------------------------------------------- tickers

/// operators that own a periodic task
#[derive(Clone, Copy, Debug, PartialEq, Eq)]
pub enum Ticker {
  BufferTime,
  BufferCountTime,
  SampleInterval,
  /// interval() itself as the source: a_i = i
  IntervalTake,
}

/// `kind` over a SubjectThreads, its periodic task a controlled task whose
/// waiting is a yield; emitting thread(s) run `scripts`, then the main task
/// unsubscribes (which must retire the ticker) and joins everything.
pub fn ticker_scenario(kind: Ticker, scripts: Vec<Vec<Op>>, bound: u32, max_execs: u64) -> Scenario {
  let scripts: Vec<Vec<Op>> = scripts
    .into_iter()
    .enumerate()
    .map(|(t, s)| {
      s.into_iter()
        .enumerate()
        .map(|(k, o)| match o {
          Op::NextA(_) => Op::NextA(10 * (t as Item + 1) + k as Item),
          o => o,
        })
        .collect()
    })
    .collect();
  let name = format!("ticker {kind:?} {} c<={bound}", scripts_name(&scripts));
  Scenario {
    name,
    sig: format!("{kind:?}"),
    bound,
    max_execs,
    body: Arc::new(move |ctx: &Arc<Ctx>, out: &mut Out| {
      use_yield_timers();
      let a = Subj::default();
      let p0 = TProbe::new("p0", ctx);
      let fold = |v: Vec<Item>| v.iter().fold(0, |acc, x| acc * 100 + x);
      let pipe: Pipe = match kind {
        Ticker::BufferTime => a.clone().buffer_with_time(ticks(1), pool_scheduler()).map(fold).box_it(),
        Ticker::BufferCountTime => a
          .clone()
          .buffer_with_count_and_time(2, ticks(1), pool_scheduler())
          .map(fold)
          .box_it(),
        Ticker::SampleInterval => a
          .clone()
          .sample_threads(observable::interval(ticks(1), pool_scheduler()).on_error_map(|e: std::convert::Infallible| -> Er { match e {} }))
          .box_it(),
        Ticker::IntervalTake => observable::interval(ticks(1), pool_scheduler())
          .map(|n| n as Item)
          .on_error_map(|e: std::convert::Infallible| -> Er { match e {} })
          .take(3)
          .box_it(),
      };
      let sub0 = pipe.actual_subscribe(p0.clone());
      let calls: Arc<Mutex<Vec<Call>>> = Arc::new(Mutex::new(vec![]));
      let mut hs = vec![];
      for (i, script) in scripts.iter().enumerate() {
        let (script, a, calls, ctx2) = (script.clone(), a.clone(), calls.clone(), ctx.clone());
        hs.push(shuttle::thread::spawn(move || {
          for op in script {
            let start = ctx2.stamp();
            match op {
              Op::NextA(v) => a.clone().next(v),
              Op::CompleteA => a.clone().complete(),
              Op::ErrorA => a.clone().error(7),
              _ => {}
            }
            let end = ctx2.stamp();
            calls.lock().unwrap().push(Call { thread: i, op, start, end });
          }
        }));
      }
      for h in hs {
        h.join().unwrap();
      }
      let waits_before = timer_waits();
      let calls = calls.lock().unwrap().clone();
      let terminated_by_source = calls.iter().any(|c| matches!(c.op, Op::CompleteA | Op::ErrorA));
      if kind == Ticker::IntervalTake {
        // take(3) ends the stream: the ticker retires by itself, nobody unsubscribes
        drain_pool(true);
        drop(sub0);
      } else {
        if !terminated_by_source {
          sub0.unsubscribe();
        } else {
          drop(sub0);
        }
        let at = ctx.stamp();
        drain_pool(true);
        for e in p0.evs() {
          if !terminated_by_source && e.enter > at {
            ctx.fail(
              format!("C09:after-unsubscribe:{kind:?}"),
              format!("{:?} was delivered after unsubscribe() had returned", e.note),
            );
          }
        }
      }
      let _ = waits_before;
      if timer_waits() + 1 >= MAX_TICKS {
        ctx.fail(
          format!("C09:ticker-not-retired:{kind:?}"),
          format!("the periodic task was still ticking after {} timer waits", timer_waits()),
        );
      }
      // ------------------------------------------------ oracle
      let notes = p0.notes();
      if !p0.grammar_ok() {
        ctx.fail(format!("C09:grammar:{kind:?}"), format!("probe saw [{}]", fmt_notes(&notes)));
      }
      {
        let mut v = ctx.viol.lock().unwrap();
        for x in v.iter_mut() {
          if x.class == "overlap" {
            x.class = format!("C09:overlap:{kind:?}");
          }
        }
      }
      let mut ac: Vec<&Call> = calls.iter().filter(|c| matches!(c.op, Op::NextA(_))).collect();
      ac.sort_by_key(|c| c.start);
      let a_items: Vec<Item> = ac.iter().map(|c| if let Op::NextA(v) = c.op { v } else { 0 }).collect();
      let one_thread = ac.iter().map(|c| c.thread).collect::<std::collections::BTreeSet<_>>().len() <= 1;
      let got: Vec<Item> = notes.iter().filter_map(|n| if let Note::N(v) = n { Some(*v) } else { None }).collect();
      let completed = calls.iter().any(|c| c.op == Op::CompleteA);
      let failed = calls.iter().any(|c| c.op == Op::ErrorA);
      let mut bad: Option<String> = None;
      match kind {
        Ticker::BufferTime | Ticker::BufferCountTime => {
          let mut flat: Vec<Item> = vec![];
          for v in &got {
            let mut b = vec![];
            let mut x = *v;
            while x > 0 {
              b.push(x % 100);
              x /= 100;
            }
            b.reverse();
            if b.is_empty() {
              bad = Some("an empty buffer was delivered".into());
            }
            if kind == Ticker::BufferCountTime && b.len() > 2 {
              bad = Some(format!("a buffer of {} items exceeds the count limit 2", b.len()));
            }
            flat.extend(b);
          }
          for v in &flat {
            if !a_items.contains(v) {
              bad = Some(format!("item {v} was never emitted"));
            } else if flat.iter().filter(|x| *x == v).count() > 1 {
              bad = Some(format!("item {v} is in the buffers more than once"));
            }
          }
          if bad.is_none() && one_thread && (flat.len() > a_items.len() || flat[..] != a_items[..flat.len()]) {
            bad = Some(format!("the concatenated buffers {flat:?} are not a prefix of the source"));
          }
          if bad.is_none() && completed && !failed && one_thread {
            let mut f = flat.clone();
            f.sort();
            let mut w = a_items.clone();
            w.sort();
            if f != w || notes.last() != Some(&Note::C) {
              bad = Some(format!("the source completed; the concatenated buffers {flat:?} are not the whole source followed by the completion"));
            }
          }
        }
        Ticker::SampleInterval => {
          for v in &got {
            if !a_items.contains(v) {
              bad = Some(format!("item {v} was never emitted"));
            } else if got.iter().filter(|x| *x == v).count() > 1 {
              bad = Some(format!("item {v} delivered more than once"));
            }
          }
          if bad.is_none() && one_thread {
            let pos: Vec<usize> = got.iter().map(|v| a_items.iter().position(|x| x == v).unwrap()).collect();
            if pos.windows(2).any(|w| w[0] >= w[1]) {
              bad = Some("items delivered out of source order".into());
            }
          }
        }
        Ticker::IntervalTake => {
          if notes != vec![Note::N(0), Note::N(1), Note::N(2), Note::C] {
            bad = Some("interval().take(3) must deliver 0 1 2 and complete".into());
          }
        }
      }
      if let Some(b) = bad {
        ctx.fail(
          format!("C09:ticker-content:{kind:?}"),
          format!("source emitted {a_items:?}, output [{}]: {b}", fmt_notes(&notes)),
        );
      }
      out.delivered = notes.len() as u64;
      out.note(&notes);
      out.trace.push(format!("p0 [{}] timer waits {}", fmt_notes(&notes), timer_waits()));
    }),
  }
}

/// finalize_threads behind a subscription made by a scheduled task
/// (`subscribe_on` / `delay_subscription`): the subscriber unsubscribes while the
/// pool task may be anywhere in making that subscription
pub fn finalize_subscribe_on_scenario(delayed: bool, bound: u32, max_execs: u64) -> Scenario {
  Scenario {
    name: format!(
      "defer(subject).finalize_threads(f).{} || unsubscribe c<={bound}",
      if delayed { "delay_subscription" } else { "subscribe_on" }
    ),
    sig: "finalize_threads+subscribe_on".into(),
    bound,
    max_execs,
    body: Arc::new(move |ctx: &Arc<Ctx>, out: &mut Out| {
      let mut a = Subj::default();
      let fin = Arc::new(AtomicUsize::new(0));
      let subs = Arc::new(AtomicUsize::new(0));
      let (f2, s2, a2) = (fin.clone(), subs.clone(), a.clone());
      let src = observable::defer(move || {
        s2.fetch_add(1, Ordering::SeqCst);
        a2.clone()
      })
      .finalize_threads(move || {
        f2.fetch_add(1, Ordering::SeqCst);
      });
      let p0 = TProbe::new("p0", ctx);
      let pipe: Pipe = if delayed {
        src.delay_subscription(ticks(1), pool_scheduler()).box_it()
      } else {
        src.subscribe_on(pool_scheduler()).box_it()
      };
      let sub0 = pipe.actual_subscribe(p0.clone());
      let u = shuttle::thread::spawn(move || sub0.unsubscribe());
      u.join().unwrap();
      let at = ctx.stamp();
      drain_pool(true);
      a.next(1);
      let (n_fin, n_subs) = (fin.load(Ordering::SeqCst), subs.load(Ordering::SeqCst));
      if n_fin > n_subs || (n_subs == 1 && n_fin != 1) {
        ctx.fail(
          "C15:finalize-count:finalize_threads+subscribe_on",
          format!("the scheduled task subscribed the source {n_subs} times, unsubscribe() has returned and every task has run: the finalizer ran {n_fin} times"),
        );
      }
      for e in p0.evs() {
        if e.enter > at {
          ctx.fail(
            "C15:delivered-after-unsubscribe:finalize_threads+subscribe_on",
            format!("{:?} was delivered after unsubscribe() had returned", e.note),
          );
        }
      }
      out.delivered = (n_fin + n_subs) as u64;
      out.note(&vec![Note::N(n_fin as Item), Note::N(n_subs as Item)]);
      out.trace.push(format!("source subscriptions {n_subs} finalizer runs {n_fin} p0 [{}]", fmt_notes(&p0.notes())));
    }),
  }
}

/// a cold synchronous source behind subscribe_on / delay_subscription: the whole
/// emission happens inside the scheduled task; another thread unsubscribes
/// while that task may be anywhere. Whatever was delivered is a prefix of the
/// source's sequence, a completion only after all of its items, and nothing
/// once unsubscribe() has returned.
pub fn cold_subscribe_on_scenario(prop: &str, delayed: bool, bound: u32, max_execs: u64) -> Scenario {
  let prop = prop.to_string();
  let opname = if delayed { "delay_subscription" } else { "subscribe_on" };
  Scenario {
    name: format!("from_iter([1,2,3]).{opname} || unsubscribe c<={bound}"),
    sig: opname.into(),
    bound,
    max_execs,
    body: Arc::new(move |ctx: &Arc<Ctx>, out: &mut Out| {
      let src = observable::from_iter(vec![1 as Item, 2, 3]).on_error_map(|e: std::convert::Infallible| -> Er { match e {} });
      let p0 = TProbe::new("p0", ctx);
      let pipe: Pipe = if delayed {
        src.delay_subscription(ticks(1), pool_scheduler()).box_it()
      } else {
        src.subscribe_on(pool_scheduler()).box_it()
      };
      let sub0 = pipe.actual_subscribe(p0.clone());
      let u = shuttle::thread::spawn(move || sub0.unsubscribe());
      u.join().unwrap();
      let at = ctx.stamp();
      drain_pool(true);
      let full = vec![Note::N(1), Note::N(2), Note::N(3), Note::C];
      let got = p0.notes();
      // (the sequence clause is C07's; C02 asks only for silence after the cut)
      if prop == "C07" && (got.len() > full.len() || got[..] != full[..got.len()]) {
        ctx.fail(
          format!("{prop}:not-a-prefix:{opname}"),
          format!("the source delivers [1 2 3 |]; the subscriber saw [{}]", fmt_notes(&got)),
        );
      }
      for e in p0.evs() {
        if e.enter > at {
          ctx.fail(
            format!("{prop}:delivered-after-unsubscribe:{opname}"),
            format!("{:?} was delivered after unsubscribe() had returned", e.note),
          );
        }
      }
      out.delivered = got.len() as u64 + 1;
      out.note(&got);
      out.trace.push(format!("p0 [{}]", fmt_notes(&got)));
    }),
  }
}

/// share_threads: A joins while B joins and leaves again
pub fn share_leave_scenario(bound: u32, max_execs: u64) -> Scenario {
  Scenario {
    name: format!("share_threads: subscribe A || (subscribe B, B leaves), emit, A leaves, emit c<={bound}"),
    sig: "share_threads".into(),
    bound,
    max_execs,
    body: Arc::new(move |ctx: &Arc<Ctx>, out: &mut Out| {
      let mut src = Subj::default();
      let taps = Arc::new(AtomicUsize::new(0));
      let subs = Arc::new(AtomicUsize::new(0));
      let (t2, s2, srcc) = (taps.clone(), subs.clone(), src.clone());
      let shared = observable::defer(move || {
        s2.fetch_add(1, Ordering::SeqCst);
        srcc.clone()
      })
      .tap(move |_| {
        t2.fetch_add(1, Ordering::SeqCst);
      })
      .share_threads();
      let (pa, pb) = (TProbe::new("a", ctx), TProbe::new("b", ctx));
      let (sa, pa2) = (shared.clone(), pa.clone());
      let ta = shuttle::thread::spawn(move || sa.actual_subscribe(pa2));
      let (sb, pb2) = (shared.clone(), pb.clone());
      let tb = shuttle::thread::spawn(move || sb.actual_subscribe(pb2).unsubscribe());
      let ua = ta.join().unwrap();
      tb.join().unwrap();
      if subs.load(Ordering::SeqCst) != 1 {
        ctx.fail("C11:source-subscriptions:share_threads", format!("source subscribed {} times", subs.load(Ordering::SeqCst)));
      }
      let t0 = taps.load(Ordering::SeqCst);
      src.next(1);
      let driven = taps.load(Ordering::SeqCst) - t0;
      let a_got = pa.notes() == vec![Note::N(1)];
      // either A joined a live share (it is present: it receives the item), or B
      // had come and gone first and the share had released its source for good
      if !((driven == 1 && a_got) || (driven == 0 && pa.notes().is_empty())) {
        ctx.fail(
          "C11:multicast:share_threads",
          format!(
            "B joined and left while A was joining; then the source emitted: the upstream ran {driven} times on the share's behalf, A (still subscribed) saw [{}]",
            fmt_notes(&pa.notes())
          ),
        );
      }
      ua.unsubscribe();
      let t1 = taps.load(Ordering::SeqCst);
      src.next(2);
      if taps.load(Ordering::SeqCst) != t1 {
        ctx.fail("C11:driven-after-last-unsubscribe:share_threads", "the upstream tap ran after the last subscriber had left");
      }
      if !pb.notes().is_empty() || pa.notes().len() > 1 {
        ctx.fail(
          "C11:multicast:share_threads",
          format!("delivered to a subscriber that had left: A [{}] B [{}]", fmt_notes(&pa.notes()), fmt_notes(&pb.notes())),
        );
      }
      out.delivered = (pa.notes().len() + pb.notes().len()) as u64 + driven as u64;
      out.note(&pa.notes());
      out.note(&vec![Note::N(driven as Item)]);
      out.trace.push(format!("A [{}] B [{}] driven {driven}", fmt_notes(&pa.notes()), fmt_notes(&pb.notes())));
    }),
  }
}

/// B is subscribed; one thread unsubscribes B while another subscribes A and
/// then emits 1; afterwards the main task emits 2. A has either joined a share
/// that B's leaving had already released (it receives nothing, ever) or it is a
/// present subscriber — witnessed by its having received 1 — and then receives 2
/// as well.
pub fn share_join_scenario(bound: u32, max_execs: u64) -> Scenario {
  Scenario {
    name: format!("share_threads: B leaves || (A subscribes, emit 1), then emit 2, A leaves, emit 3 c<={bound}"),
    sig: "share_threads".into(),
    bound,
    max_execs,
    body: Arc::new(move |ctx: &Arc<Ctx>, out: &mut Out| {
      let mut src = Subj::default();
      let taps = Arc::new(AtomicUsize::new(0));
      let t2 = taps.clone();
      let shared = src
        .clone()
        .tap(move |_| {
          t2.fetch_add(1, Ordering::SeqCst);
        })
        .share_threads();
      let (pa, pb) = (TProbe::new("a", ctx), TProbe::new("b", ctx));
      let ub = shared.clone().actual_subscribe(pb.clone());
      let tb = shuttle::thread::spawn(move || ub.unsubscribe());
      let (sa, pa2, mut src2) = (shared.clone(), pa.clone(), src.clone());
      let ta = shuttle::thread::spawn(move || {
        let u = sa.actual_subscribe(pa2);
        src2.next(1);
        u
      });
      tb.join().unwrap();
      let ua = ta.join().unwrap();
      src.next(2);
      let a = pa.notes();
      if !(a.is_empty() || a == vec![Note::N(1), Note::N(2)]) {
        ctx.fail(
          "C11:multicast:share_threads",
          format!(
            "A subscribed while B was leaving, then the source emitted 1 and (after both calls had returned) 2: A, still subscribed, saw [{}] (B saw [{}])",
            fmt_notes(&a),
            fmt_notes(&pb.notes())
          ),
        );
      }
      if pb.notes().contains(&Note::N(2)) {
        ctx.fail("C11:multicast:share_threads", format!("delivered to a subscriber that had left: B [{}]", fmt_notes(&pb.notes())));
      }
      ua.unsubscribe();
      let t1 = taps.load(Ordering::SeqCst);
      src.next(3);
      if taps.load(Ordering::SeqCst) != t1 {
        ctx.fail("C11:driven-after-last-unsubscribe:share_threads", "the upstream tap ran after the last subscriber had left");
      }
      out.delivered = (pa.notes().len() + pb.notes().len()) as u64 + 1;
      out.note(&pa.notes());
      out.note(&pb.notes());
      out.trace.push(format!("A [{}] B [{}]", fmt_notes(&pa.notes()), fmt_notes(&pb.notes())));
    }),
  }
}

// ----------------------------------------------------------- plans

pub struct Plan {
  pub scenarios: Vec<Scenario>,
  pub rule: String,
  pub bounds: Value,
  pub assumptions: Vec<String>,
}

fn seqs(alpha: &[Op], max_len: usize) -> Vec<Vec<Op>> {
  let mut out: Vec<Vec<Op>> = vec![];
  let mut level: Vec<Vec<Op>> = vec![vec![]];
  for _ in 0..max_len {
    let mut next = vec![];
    for s in &level {
      for o in alpha {
        // at most one use of each consuming operation per script
        if matches!(o, Op::Unsubscribe | Op::Subscribe | Op::SubscribeNesting) && s.contains(o) {
          continue;
        }
        let mut n = s.clone();
        n.push(*o);
        next.push(n);
      }
    }
    out.extend(next.iter().cloned());
    level = next;
  }
  out
}

const CAP: u64 = 3_000_000;

pub fn plan(prop: &str, tier: Tier) -> Option<Plan> {
  let q = tier == Tier::Quick;
  let mut sc = vec![];
  match prop {
    "C10" => {
      let c2 = if q { 2 } else { 4 };
      let c3 = if q { 1 } else { 2 };
      // shared subject: 2 threads x <=2 calls (exhaustive scripts), selected 3-call and 3-thread scripts
      let alpha = [Op::NextA(1), Op::CompleteA, Op::ErrorA, Op::Subscribe, Op::Unsubscribe, Op::UnsubSubject];
      let s2 = seqs(&alpha, 2);
      for (i, x) in s2.iter().enumerate() {
        for y in s2.iter().skip(i) {
          // the two scripts must share the subject in a way that can collide
          sc.push(script_scenario("C10", Shape::Subject, vec![x.clone(), y.clone()], Oracle::SubjectRules, c2, CAP));
        }
      }
      let three = vec![
        vec![vec![Op::NextA(1), Op::NextA(2), Op::CompleteA], vec![Op::NextA(3), Op::Subscribe, Op::NextA(4)]],
        vec![vec![Op::NextA(1), Op::CompleteA, Op::NextA(2)], vec![Op::Subscribe, Op::NextA(3), Op::Unsubscribe]],
        vec![vec![Op::Subscribe, Op::NextA(1), Op::ErrorA], vec![Op::NextA(2), Op::Unsubscribe, Op::NextA(3)]],
      ];
      for t in three {
        sc.push(script_scenario("C10", Shape::Subject, t, Oracle::SubjectRules, c2, CAP));
      }
      let s1 = seqs(&alpha, 1);
      for x in &s1 {
        for y in &s1 {
          for z in &s1 {
            sc.push(script_scenario("C10", Shape::Subject, vec![x.clone(), y.clone(), z.clone()], Oracle::SubjectRules, c3.max(1), CAP));
          }
        }
      }
      sc.push(script_scenario(
        "C10",
        Shape::Subject,
        vec![vec![Op::NextA(1), Op::NextA(2)], vec![Op::NextA(3), Op::Subscribe], vec![Op::Unsubscribe, Op::CompleteA]],
        Oracle::Serialise,
        c3,
        CAP,
      ));
      // two-input operators: one thread per input, plus unsubscribe races
      for shape in [
        Shape::Merge,
        Shape::Zip,
        Shape::CombineLatest,
        Shape::WithLatestFrom,
        Shape::TakeUntil,
        Shape::SkipUntil,
        Shape::Sample,
        Shape::MergeAllHot,
        Shape::Buffer,
        Shape::MergeTake,
      ] {
        let scripts: Vec<Vec<Vec<Op>>> = vec![
          vec![vec![Op::NextA(1), Op::NextA(2), Op::CompleteA], vec![Op::NextB(3), Op::NextB(4), Op::CompleteB]],
          vec![vec![Op::NextA(1), Op::ErrorA], vec![Op::NextB(3), Op::CompleteB]],
          vec![vec![Op::NextA(1), Op::CompleteA], vec![Op::NextB(3), Op::Unsubscribe]],
          vec![vec![Op::NextA(1), Op::NextA(2)], vec![Op::NextB(3), Op::NextB(4)], vec![Op::Unsubscribe]],
          vec![vec![Op::NextA(1), Op::CompleteA], vec![Op::NextA(2), Op::NextB(3)], vec![Op::CompleteB, Op::Subscribe]],
        ];
        for (k, s) in scripts.into_iter().enumerate() {
          let c = if s.len() == 3 { c3 } else { c2 };
          let _ = k;
          sc.push(script_scenario("C10", shape, s, Oracle::Serialise, c, CAP));
        }
      }
      // waiters: a lost wake-up is a call that never returns
      for w in [Waiter::WaitForEnd, Waiter::ToFuture, Waiter::ToStream, Waiter::ToFutureMoved] {
        for fail in [false, true] {
          sc.push(waiter_scenario(w, 1, fail, c2 + 1, CAP));
        }
      }
      for (limit, n) in [(1usize, 2usize), (1, 3), (2, 3)] {
        sc.push(flat_scenario("C10", limit, n, c3.max(1) + if n == 2 { 1 } else { 0 }, CAP));
      }
      sc.push(flat_fail_scenario("C10", c2, CAP));
      sc.push(flat_cut_scenario("C10", c3.max(1) + 1, CAP));
      // every pair of scripts of <= 2 calls on the two inputs of every two-input operator
      let alpha2 = [Op::NextA(1), Op::NextB(1), Op::CompleteA, Op::CompleteB, Op::ErrorA, Op::Unsubscribe];
      let t2 = seqs(&alpha2, 2);
      for shape in [
        Shape::Merge,
        Shape::Zip,
        Shape::CombineLatest,
        Shape::WithLatestFrom,
        Shape::TakeUntil,
        Shape::SkipUntil,
        Shape::Sample,
        Shape::MergeAllHot,
        Shape::Buffer,
        Shape::MergeTake,
      ] {
        for (i, x) in t2.iter().enumerate() {
          for y in t2.iter().skip(i) {
            // one Unsubscribe per scenario
            if x.contains(&Op::Unsubscribe) && y.contains(&Op::Unsubscribe) {
              continue;
            }
            sc.push(script_scenario("C10", shape, vec![x.clone(), y.clone()], Oracle::Serialise, if q { 1 } else { 2 }, CAP));
          }
        }
      }
      for shape in [Shape::Share, Shape::Finalize, Shape::GroupBy] {
        for s in [
          vec![vec![Op::NextA(1), Op::NextA(2), Op::CompleteA], vec![Op::Subscribe, Op::NextA(3)]],
          vec![vec![Op::NextA(1), Op::CompleteA], vec![Op::Unsubscribe, Op::Subscribe]],
          vec![vec![Op::NextA(1), Op::NextA(2)], vec![Op::Subscribe], vec![Op::Unsubscribe]],
        ] {
          let c = if s.len() == 3 { c3 } else { c2 };
          sc.push(script_scenario("C10", shape, s, Oracle::Serialise, c, CAP));
        }
      }
      for shape in [
        Shape::ObserveOn,
        Shape::Delay,
        Shape::Debounce,
        Shape::Throttle,
        Shape::SubscribeOn,
        Shape::DelaySubscription,
      ] {
        for s in [
          vec![vec![Op::NextA(1), Op::CompleteA], vec![Op::NextA(2)]],
          vec![vec![Op::NextA(1), Op::NextA(2)], vec![Op::Unsubscribe]],
          // the failing source against the pool tasks that are still delivering
          vec![vec![Op::NextA(1), Op::ErrorA]],
          vec![vec![Op::NextA(1), Op::NextA(2), Op::ErrorA]],
        ] {
          let one = s.len() == 1;
          sc.push(script_scenario("C10", shape, s, Oracle::Serialise, if q && !one { 1 } else { 2 }, CAP));
        }
      }
      Some(Plan {
        scenarios: sc,
        rule: "real _threads code on the controlled runtime: shared SubjectThreads with every pair of scripts of <=2 calls from {next, complete, error, subscribe, unsubscribe} on two threads, every triple of single calls on three threads and selected 3-call scripts; merge/zip/combine_latest/with_latest_from/take_until/skip_until/sample/merge_all (_threads) with one thread per input and an unsubscribing / subscribing third party; share_threads, finalize_threads, observe_on_threads and delay_threads (every scheduled notification is its own pool task). Every schedule within the preemption bound (scheduling points: every MutArc lock/unlock, controlled atomics, spawn/join, wake-ups). waiter threads (wait_for_end, to_future, to_stream) against a producer. Oracle: no callback entered while another thread is inside one, notification grammar, one common order across subscribers of one subject (a subscriber whose subscribe() returned before an emission started sees it, none sees it twice), every thread returns (deadlock / lost wake-up = abort reported by the runtime), no panic; non-trivial = something was delivered".into(),
        bounds: json!({"preemptions_two_threads": c2, "preemptions_three_threads": c3}),
        assumptions: vec!["sequentially consistent memory; futures' mpsc channel and AtomicWaker operations are indivisible steps".into()],
      })
    }
    "C05" => {
      let c = if q { 2 } else { 3 };
      for (limit, n) in [(1usize, 1usize), (2, 1), (1, 2), (1, 3), (2, 3), (3, 3)] {
        sc.push(flat_scenario("C05", limit, n, if n <= 2 { c + 1 } else { c }, CAP));
      }
      sc.push(flat_fail_scenario("C05", c + 1, CAP));
      sc.push(flat_cut_scenario("C05", c, CAP));
      Some(Plan {
        scenarios: sc,
        rule: "merge_all_threads(limit) over hot inner subjects, inner 0 already running: one thread delivers the remaining inners and completes the outer while another drives and completes inner 0; afterwards the other inners are driven and completed (with a single inner: the outer and the last inner complete together); two running inners failing on two threads (exactly one error, nothing after it); concat over three hot inners with one thread completing inner 0, one completing inner 1 and one unsubscribing (every call returns, nothing after unsubscribe() returned); every schedule within the preemption bound; oracle: every inner item exactly once and then completion (a queued inner that is never started, or started twice, shows as a lost / duplicated item or a missing completion), no overlapping callbacks, nothing blocks".into(),
        bounds: json!({"preemptions": c}),
        assumptions: vec!["sequentially consistent memory".into()],
      })
    }
    "C17" => {
      let c = if q { 3 } else { 7 };
      sc.push(composite_scenario(1, c + 1, CAP));
      sc.push(composite_scenario(2, c, CAP));
      let cs = if q { 2 } else { 3 };
      // (not merge_all: a composite consults its members under its own lock, and an
      // emission that appends a member holds a member's lock while it asks for the
      // composite's: is_closed() concurrent with such an emission can dead-lock.
      // No stated property covers is_closed() calls racing with emissions for
      // blocking; see DESIGN §10, observations)
      for shape in [
        Shape::Subject,
        Shape::Merge,
        Shape::Zip,
        Shape::Finalize,
        // composite handles: the source's subscription paired with the handles of
        // the tasks scheduled on the subscriber's behalf, or with a second input's
        Shape::Delay,
        Shape::ObserveOn,
        Shape::Debounce,
        Shape::Throttle,
        Shape::SubscribeOn,
        Shape::DelaySubscription,
        Shape::CombineLatest,
        Shape::WithLatestFrom,
        Shape::TakeUntil,
        Shape::SkipUntil,
        Shape::Sample,
        Shape::Buffer,
        Shape::Share,
      ] {
        for s in [
          vec![vec![Op::NextA(1), Op::CompleteA], vec![Op::IsClosed, Op::IsClosed]],
          vec![vec![Op::NextA(1), Op::ErrorA], vec![Op::IsClosed]],
        ] {
          // every scheduled notification is a pool task of its own: one preemption
          // less keeps those scenarios below the schedule cap in the thorough tier
          let cs = if shape.uses_pool() { cs.min(2) } else { cs };
          if shape.two_inputs() && s[0].contains(&Op::CompleteA) {
            sc.push(script_scenario("C17", shape, vec![vec![Op::NextA(1), Op::CompleteA, Op::CompleteB], vec![Op::IsClosed, Op::IsClosed]], Oracle::Serialise, cs, CAP));
          } else {
            sc.push(script_scenario("C17", shape, s, Oracle::Serialise, cs, CAP));
          }
        }
      }
      Some(Plan {
        scenarios: sc,
        rule: "MultiSubscriptionThreads shared by one or two threads appending a live child each and one thread unsubscribing the composite through a clone; every schedule within the preemption bound; oracle once all calls have returned: every remaining handle reports closed and every child has been unsubscribed, whichever of append / unsubscribe came first; and a thread sampling is_closed() on the subscription of a subject / finalize_threads / share_threads pipeline, of every two-input _threads combinator and of every scheduler-using operator on a controlled pool (delay, observe_on, debounce, throttle_time, subscribe_on, delay_subscription) while another thread emits and terminates the source: nothing is delivered after a call answered true, and no later call answers false".into(),
        bounds: json!({"preemptions": c}),
        assumptions: vec!["sequentially consistent memory".into()],
      })
    }
    "C11" => {
      let c = if q { 3 } else { 6 };
      sc.push(share_scenario(c, CAP));
      sc.push(share_leave_scenario(c, CAP));
      sc.push(share_join_scenario(c, CAP));
      Some(Plan {
        scenarios: sc,
        rule: "share_threads over a hot source behind a counting tap: two threads subscribe concurrently (one of them connects), then A leaves, the source emits, B leaves, the source emits; every schedule of the two joins within the preemption bound; oracle: one source subscription, each subscriber sees exactly the items emitted while it was present, the upstream is not driven after the last leaver; and A joining while B joins and leaves again: A then either receives what the source emits or the share had already released its source (never: source driven, A present, nothing delivered); and A subscribing and the source emitting while B leaves: a subscriber that received one item and has not left receives the next one too".into(),
        bounds: json!({"preemptions": c}),
        assumptions: vec!["sequentially consistent memory".into()],
      })
    }
    "C19" => {
      let c = if q { 3 } else { 8 };
      for subscribing in [true, false] {
        for delayed in [false, true] {
          sc.push(task_scenario(subscribing, delayed, c, CAP));
        }
      }
      Some(Plan {
        scenarios: sc,
        rule: "a one-shot task (plain / producing a subscription; with and without a delay) scheduled through the crate's scheduler machinery (Remote, TaskHandle) on a controlled pool task, against a thread that cancels the handle; the body contains two controlled steps so that another thread can run in the middle of it; every schedule within the preemption bound; oracle: the body runs at most once, neither starts nor is still running once unsubscribe() has returned, and a subscription it produced is unsubscribed by the handle teardown".into(),
        bounds: json!({"preemptions": c}),
        assumptions: vec!["sequentially consistent memory".into()],
      })
    }
    "C04" => {
      let c = if q { 2 } else { 4 };
      for shape in [
        Shape::Merge,
        Shape::Zip,
        Shape::CombineLatest,
        Shape::WithLatestFrom,
        Shape::TakeUntil,
        Shape::SkipUntil,
        Shape::Sample,
        Shape::Buffer,
      ] {
        for s in [
          vec![vec![Op::NextA(1), Op::CompleteA], vec![Op::NextB(3), Op::CompleteB]],
          vec![vec![Op::CompleteA], vec![Op::CompleteB]],
          vec![vec![Op::NextA(1), Op::NextA(2), Op::CompleteA], vec![Op::NextB(3), Op::NextB(4), Op::CompleteB]],
          vec![vec![Op::NextA(1), Op::NextA(2)], vec![Op::NextB(3), Op::CompleteB]],
          vec![vec![Op::NextA(1), Op::NextA(2), Op::NextA(3)], vec![Op::NextB(4), Op::NextB(5)]],
          vec![vec![Op::NextA(1), Op::CompleteA], vec![Op::NextB(3), Op::NextB(4), Op::NextB(5)]],
        ] {
          sc.push(script_scenario("C04", shape, s, Oracle::Serialise, c, CAP));
        }
        if !q {
          sc.push(script_scenario(
            "C04",
            shape,
            vec![vec![Op::NextA(1), Op::NextA(2), Op::NextA(3), Op::CompleteA], vec![Op::NextB(4), Op::NextB(5), Op::NextB(6), Op::CompleteB]],
            Oracle::Serialise,
            2,
            CAP,
          ));
        }
      }
      Some(Plan {
        scenarios: sc,
        rule: "the two inputs of merge/zip/combine_latest/with_latest_from/take_until/skip_until/sample/buffer (_threads forms) driven by one thread each (items then completion); every schedule within the preemption bound; oracle on the final state, which the definitions fix whatever the interleaving: the output has completed exactly when the definition says so (merge/zip/combine_latest: both inputs; the others: the main input), merge delivered every item of both inputs exactly once and each input's items in its own order; zip's i-th output is the pair of the i-th items and there are exactly min(|a|,|b|) of them; the combinations of combine_latest advance one input by one item per output and end with the latest values of both; with_latest_from uses every main item from the first combined one on exactly once, in order, with a non-decreasing partner, and every main item that arrives after the secondary input has delivered a value; take_until's output is a prefix and skip_until's a gap-free suffix of the main input; the concatenated buffers of buffer(notifier) are a prefix of (on completion: all of) the main input; sample delivers source items only, at most once, in order, and a tick that starts while an item is pending delivers that item or one whose arrival overlaps the tick; notification grammar, no overlapping callbacks, every call returns".into(),
        bounds: json!({"preemptions": c}),
        assumptions: vec!["sequentially consistent memory".into()],
      })
    }
    "C06" => {
      let c = if q { 2 } else { 3 };
      let alpha = [
        Op::NextA(1),
        Op::CompleteA,
        Op::ErrorA,
        Op::Subscribe,
        Op::SubscribeNesting,
        Op::Unsubscribe,
        Op::UnsubSubject,
      ];
      let s2 = seqs(&alpha, 2);
      for (i, x) in s2.iter().enumerate() {
        for y in s2.iter().skip(i) {
          sc.push(script_scenario("C06", Shape::Subject, vec![x.clone(), y.clone()], Oracle::SubjectRules, c, CAP));
        }
      }
      // longer scripts on two threads
      let s3 = seqs(&alpha, 3);
      for x in s3.iter().filter(|s| s.len() == 3) {
        for y in [vec![Op::NextA(1)], vec![Op::Subscribe], vec![Op::Unsubscribe], vec![Op::CompleteA]] {
          sc.push(script_scenario("C06", Shape::Subject, vec![x.clone(), y], Oracle::SubjectRules, c, CAP));
        }
      }
      let s1 = seqs(&alpha, 1);
      for x in &s1 {
        for y in &s1 {
          for z in &s1 {
            sc.push(script_scenario("C06", Shape::Subject, vec![x.clone(), y.clone(), z.clone()], Oracle::SubjectRules, if q { 1 } else { 2 }, CAP));
          }
        }
      }
      // retain() (pruning closed subscribers) against everything else
      for x in [vec![Op::Retain], vec![Op::Unsubscribe, Op::Retain], vec![Op::Retain, Op::NextA(1)]] {
        for y in &s1 {
          sc.push(script_scenario("C06", Shape::Subject, vec![x.clone(), y.clone()], Oracle::SubjectRules, c, CAP));
        }
        sc.push(script_scenario("C06", Shape::Subject, vec![x.clone(), vec![Op::NextA(1), Op::Subscribe]], Oracle::SubjectRules, c, CAP));
      }
      // two threads pruning the list [closed, live] at once; the live one still gets the next item
      for x in [
        vec![Op::Subscribe, Op::Unsubscribe, Op::Retain, Op::NextA(1)],
        vec![Op::Subscribe, Op::NextA(1), Op::Unsubscribe, Op::Retain, Op::NextA(2)],
      ] {
        sc.push(script_scenario("C06", Shape::Subject, vec![x, vec![Op::Retain]], Oracle::SubjectRules, c, CAP));
      }
      sc.push(script_scenario(
        "C06",
        Shape::Subject,
        vec![vec![Op::Retain], vec![Op::NextA(1)], vec![Op::Subscribe]],
        Oracle::SubjectRules,
        if q { 1 } else { 2 },
        CAP,
      ));
      Some(Plan {
        scenarios: sc,
        rule: "SubjectThreads shared by two threads (every pair of scripts of <=2 calls) and three threads (every triple of single calls) from {next(v), complete, error, subscribe a fresh probe, unsubscribe the early probe}, plus retain() against each of them and against a second retain() while the list holds a closed and a live subscriber; every schedule within the preemption bound; oracle from call/return stamps on the controlled schedule: each item at most once per subscriber, one common order, a subscriber whose subscribe() returned before next() started gets the item, one whose subscribe() started after next() returned does not, terminal exactly once for subscribers present, nothing after unsubscribe() returned".into(),
        bounds: json!({"preemptions": c}),
        assumptions: vec!["sequentially consistent memory".into()],
      })
    }
    "C12" => {
      let c = if q { 3 } else { 4 };
      sc.push(behavior_scenario(true, c, CAP));
      sc.push(behavior_scenario(false, c, CAP));
      Some(Plan {
        scenarios: sc,
        rule: "BehaviorSubject over SubjectThreads with one early subscriber: two producer threads (next(1) || next(2)) resp. one producer (next(1); next(2)), one thread subscribing late, peek() after all joined; every schedule within the preemption bound; oracle: peek() equals the item delivered last in the common order, the late subscriber sees a current value followed by exactly the items delivered after it".into(),
        bounds: json!({"preemptions": c}),
        assumptions: vec!["sequentially consistent memory".into()],
      })
    }
    "C14" => {
      let c = if q { 3 } else { 6 };
      for w in [Waiter::WaitForEnd, Waiter::ToFuture, Waiter::ToStream, Waiter::ToFutureMoved] {
        for items in 0..=2 {
          for fail in [false, true] {
            sc.push(waiter_scenario(w, items, fail, c, CAP));
          }
        }
      }
      Some(Plan {
        scenarios: sc,
        rule: "a producer thread (0..2 items, then complete or error) against a waiting thread (CompleteStatus::wait_for_end, block_on(to_future()), draining to_stream(), and a to_future() that was polled once by another task before the waiting thread took it over); every schedule within the preemption bound including the point between the closed-flag check and the waker registration; oracle: the waiter returns (a lost wake-up is a deadlock reported by the runtime) with the documented outcome".into(),
        bounds: json!({"preemptions": c}),
        assumptions: vec!["futures' mpsc channel / AtomicWaker operations are indivisible steps".into()],
      })
    }
    "C15" => {
      let c = if q { 3 } else { 5 };
      for s in [
        vec![vec![Op::CompleteA], vec![Op::Unsubscribe]],
        vec![vec![Op::ErrorA], vec![Op::Unsubscribe]],
        vec![vec![Op::NextA(1), Op::CompleteA], vec![Op::Unsubscribe]],
        vec![vec![Op::CompleteA], vec![Op::ErrorA]],
        vec![vec![Op::CompleteA, Op::ErrorA], vec![Op::Unsubscribe]],
      ] {
        sc.push(script_scenario("C15", Shape::Finalize, s, Oracle::FinalizeOnce, c, CAP));
      }
      for s in [
        vec![vec![Op::CompleteA], vec![Op::Unsubscribe], vec![Op::ErrorA]],
        vec![vec![Op::NextA(1), Op::CompleteA], vec![Op::Unsubscribe], vec![Op::CompleteA]],
      ] {
        sc.push(script_scenario("C15", Shape::Finalize, s, Oracle::FinalizeOnce, c - 1, CAP));
      }
      for delayed in [false, true] {
        sc.push(finalize_subscribe_on_scenario(delayed, c, CAP));
      }
      Some(Plan {
        scenarios: sc,
        rule: "subject.finalize_threads(f): a terminating thread (complete / error, with or without a preceding item) against an unsubscribing thread, and with a second terminating thread; every schedule within the preemption bound; oracle: the finalizer ran exactly once when all threads have returned; and finalize_threads behind subscribe_on / delay_subscription with the subscriber unsubscribing while the pool task may be anywhere in making the subscription: once unsubscribe() has returned and every task has run, the finalizer ran exactly as often as the source was subscribed (0 or 1) and nothing is delivered".into(),
        bounds: json!({"preemptions_two_threads": c, "preemptions_three_threads": c - 1}),
        assumptions: vec!["sequentially consistent memory".into()],
      })
    }
    "C07" => {
      let c = if q { 1 } else { 2 };
      for shape in [Shape::ObserveOn, Shape::Delay] {
        for s in [
          vec![vec![Op::NextA(1), Op::NextA(2)]],
          vec![vec![Op::NextA(1), Op::NextA(2), Op::NextA(3)]],
          vec![vec![Op::NextA(1)], vec![Op::NextA(2)]],
          vec![vec![Op::NextA(1), Op::CompleteA]],
          // the source asks its subscriber is_finished() (retain) while pool tasks deliver
          vec![vec![Op::NextA(1), Op::Retain, Op::NextA(2)]],
          vec![vec![Op::NextA(1), Op::NextA(2)], vec![Op::Retain]],
        ] {
          let n: usize = s.iter().map(|x| x.len()).sum();
          sc.push(script_scenario("C07", shape, s, Oracle::Serialise, if n >= 3 { c } else { c + 1 }, CAP));
        }
      }
      for delayed in [false, true] {
        sc.push(cold_subscribe_on_scenario("C07", delayed, c + 2, CAP));
      }
      Some(Plan {
        scenarios: sc,
        rule: "a cold synchronous source behind subscribe_on / delay_subscription (the emission runs inside the pool task) against an unsubscribing thread: what is delivered is a prefix of the source's sequence, the completion only after all items, nothing after unsubscribe() returned; observe_on_threads and delay_threads over a SubjectThreads with every scheduled notification its own controlled pool task (a k-worker pool that may run, and overlap, them in any order): one or two emitting threads, optionally a retain() on the source (which asks every subscriber is_finished()); every schedule within the preemption bound; oracle once every task has run: nothing invented or duplicated, and every item of a source that neither terminated nor was unsubscribed has been delivered (the order in which independent tasks deliver is engine E1's known finding and is not asserted here); no overlapping callbacks, grammar, nothing blocks".into(),
        bounds: json!({"preemptions": c}),
        assumptions: vec!["sequentially consistent memory".into()],
      })
    }
    "C09" => {
      let c = if q { 2 } else { 3 };
      for shape in [Shape::Debounce, Shape::Throttle] {
        for s in [
          vec![vec![Op::NextA(1), Op::CompleteA]],
          vec![vec![Op::NextA(1), Op::NextA(2), Op::CompleteA]],
          vec![vec![Op::NextA(1), Op::NextA(2), Op::NextA(3)]],
          vec![vec![Op::NextA(1), Op::CompleteA], vec![Op::NextA(2)]],
          vec![vec![Op::NextA(1), Op::NextA(2)], vec![Op::Unsubscribe]],
          vec![vec![Op::NextA(1), Op::ErrorA]],
        ] {
          let n_ops: usize = s.iter().map(|x| x.len()).sum();
          sc.push(script_scenario("C09", shape, s, Oracle::Serialise, if n_ops >= 3 { c } else { c + 1 }, CAP));
        }
      }
      for s in [
        vec![vec![Op::NextA(1), Op::NextA(2), Op::CompleteA], vec![Op::NextB(3), Op::NextB(4)]],
        vec![vec![Op::NextA(1), Op::NextA(2)], vec![Op::NextB(3), Op::CompleteB]],
      ] {
        sc.push(script_scenario("C09", Shape::Sample, s, Oracle::Serialise, c, CAP));
      }
      sc.push(ticker_scenario(Ticker::IntervalTake, vec![], c + 1, CAP));
      for kind in [Ticker::BufferTime, Ticker::BufferCountTime, Ticker::SampleInterval] {
        for s in [
          vec![vec![Op::NextA(1), Op::NextA(2), Op::CompleteA]],
          vec![vec![Op::NextA(1), Op::NextA(2), Op::NextA(3)]],
          vec![vec![Op::NextA(1), Op::ErrorA]],
        ] {
          sc.push(ticker_scenario(kind, s, c, CAP));
        }
        sc.push(ticker_scenario(kind, vec![vec![Op::NextA(1), Op::NextA(2)], vec![Op::NextA(3)]], c - 1, CAP));
        // the tick interrupted between two of its steps by the arrival that fills the buffer
        sc.push(ticker_scenario(kind, vec![vec![Op::NextA(1), Op::NextA(2)]], c + 1, CAP));
      }
      Some(Plan {
        scenarios: sc,
        rule: "debounce and throttle_time (both edges) over a SubjectThreads with every timer task its own controlled task that may run at any moment, sample_threads with the notifier driven by a second thread: one or two emitting threads (1-3 next, optionally a terminal) and optionally an unsubscribing thread; every schedule within the preemption bound; buffer_with_time, buffer_with_count_and_time and sample(interval) with their periodic task a controlled task whose wait for the next period is a yield (everybody else is offered first; resuming the ticker before them is charged like a preemption), ended by the source's terminal or by unsubscribe(), which must retire the ticker; oracle once everything has returned and the pool is drained: the output consists of source items only, each at most once, in source order (when one thread emits); an undisturbed completed source got its final item through (throttle: also its first) followed by the completion; buffers are never empty, never exceed the count limit, their concatenation is a prefix of the source and all of it when the source completed; nothing is delivered after unsubscribe() returned and the ticker stops; no overlapping callbacks, grammar, nothing blocks".into(),
        bounds: json!({"preemptions": c}),
        assumptions: vec!["sequentially consistent memory".into(), "a timer is a point at which its task may be postponed arbitrarily (virtual time itself is engine E1's subject)".into()],
      })
    }
    "C02" => {
      let c = if q { 2 } else { 3 };
      for shape in [
        Shape::Subject,
        Shape::Merge,
        Shape::Zip,
        Shape::CombineLatest,
        Shape::TakeUntil,
        Shape::WithLatestFrom,
        Shape::Sample,
        Shape::SkipUntil,
        Shape::MergeAllHot,
        Shape::Share,
        Shape::Finalize,
        Shape::Buffer,
        Shape::GroupBy,
        Shape::MergeTake,
      ] {
        let emit: Vec<Op> = if shape.two_inputs() {
          vec![Op::NextB(5), Op::NextA(1), Op::NextB(6), Op::CompleteA]
        } else {
          vec![Op::NextA(1), Op::NextA(2), Op::CompleteA]
        };
        sc.push(script_scenario("C02", shape, vec![emit.clone(), vec![Op::Unsubscribe]], Oracle::Unsub, c, CAP));
        let short: Vec<Op> = emit.iter().take(2).cloned().collect();
        sc.push(script_scenario("C02", shape, vec![short, vec![Op::Unsubscribe]], Oracle::Unsub, c + 1, CAP));
      }
      for shape in [
        Shape::ObserveOn,
        Shape::Delay,
        Shape::Debounce,
        Shape::Throttle,
        Shape::SubscribeOn,
        Shape::DelaySubscription,
      ] {
        sc.push(script_scenario("C02", shape, vec![vec![Op::NextA(1), Op::CompleteA], vec![Op::Unsubscribe]], Oracle::Unsub, if q { 1 } else { 2 }, CAP));
        sc.push(script_scenario("C02", shape, vec![vec![Op::NextA(1)], vec![Op::Unsubscribe]], Oracle::Unsub, c, CAP));
      }
      for delayed in [false, true] {
        sc.push(cold_subscribe_on_scenario("C02", delayed, c, CAP));
      }
      Some(Plan {
        scenarios: sc,
        rule: "from_iter behind subscribe_on / delay_subscription cut by another thread while the pool task emits; SubjectThreads -> {nothing, merge, zip, combine_latest, take_until, with_latest_from, sample, skip_until, merge_all, share, finalize, observe_on, delay}_threads -> probe: one emitting thread (1-3 next, then a terminal) against one thread calling unsubscribe(); pool tasks of observe_on/delay are separate controlled tasks; every schedule within the preemption bound; oracle: no callback entry or exit is stamped after unsubscribe() returned".into(),
        bounds: json!({"preemptions": c}),
        assumptions: vec!["sequentially consistent memory".into()],
      })
    }
    _ => None,
  }
}
