//! Harness pieces shared by the E2 scenarios: logical clock, recording probe
//! with an overlap detector, virtual timers and the pool of spawned tasks.
use rxrust::prelude::*;
use rxrust::scheduler::{BoxFuture, SpawnFnScheduler, NEW_TIMER_FN};
use shuttle::sync::atomic::AtomicBool as SAtomicBool;
use std::cell::RefCell;
use std::future::Future;
use std::pin::Pin;
use std::sync::atomic::{AtomicU64, Ordering};
use std::sync::{Arc, Mutex};
use std::task::{Context, Poll};
use std::time::Duration;

pub type Item = i64;
pub type Er = i64;

#[derive(Clone, Debug, PartialEq, Eq, Hash)]
pub enum Note {
  N(Item),
  Err(Er),
  C,
}
impl Note {
  pub fn is_terminal(&self) -> bool {
    !matches!(self, Note::N(_))
  }
}

#[derive(Clone, Debug)]
pub struct Ev {
  pub note: Note,
  pub enter: u64,
  pub exit: u64,
}

#[derive(Clone, Debug)]
pub struct Viol {
  pub class: String,
  pub detail: String,
}

/// per-execution context (plain std primitives, never held across a
/// scheduling point)
pub struct Ctx {
  clock: AtomicU64,
  pub viol: Mutex<Vec<Viol>>,
}

impl Ctx {
  pub fn new() -> Arc<Ctx> {
    Arc::new(Ctx { clock: AtomicU64::new(1), viol: Mutex::new(vec![]) })
  }
  pub fn stamp(&self) -> u64 {
    self.clock.fetch_add(1, Ordering::SeqCst)
  }
  pub fn fail(&self, class: impl Into<String>, detail: impl Into<String>) {
    self.viol.lock().unwrap().push(Viol { class: class.into(), detail: detail.into() });
  }
}

#[derive(Clone)]
pub struct TProbe {
  pub name: &'static str,
  pub log: Arc<Mutex<Vec<Ev>>>,
  inside: Arc<SAtomicBool>,
  ctx: Arc<Ctx>,
  /// run once, from inside the first item delivery (re-entrant subscribe)
  pub hook: Arc<Mutex<Option<Box<dyn FnOnce() + Send>>>>,
}

impl TProbe {
  pub fn new(name: &'static str, ctx: &Arc<Ctx>) -> TProbe {
    TProbe {
      name,
      log: Arc::new(Mutex::new(vec![])),
      inside: Arc::new(SAtomicBool::new(false)),
      ctx: ctx.clone(),
      hook: Arc::new(Mutex::new(None)),
    }
  }
  pub fn with_hook(name: &'static str, ctx: &Arc<Ctx>, f: impl FnOnce() + Send + 'static) -> TProbe {
    let p = TProbe::new(name, ctx);
    *p.hook.lock().unwrap() = Some(Box::new(f));
    p
  }
  fn deliver(&self, note: Note) {
    // entry: a controlled atomic (scheduling point before the swap)
    if self.inside.swap(true, Ordering::SeqCst) {
      self.ctx.fail(
        "overlap",
        format!("probe {}: a callback started while another thread was inside a callback", self.name),
      );
    }
    let enter = self.ctx.stamp();
    let idx = {
      let mut l = self.log.lock().unwrap();
      l.push(Ev { note, enter, exit: 0 });
      l.len() - 1
    };
    // exit: the scheduling point before this store is where a second thread
    // gets its chance to enter while we are still inside
    self.inside.store(false, Ordering::SeqCst);
    let exit = self.ctx.stamp();
    self.log.lock().unwrap()[idx].exit = exit;
  }
  pub fn evs(&self) -> Vec<Ev> {
    self.log.lock().unwrap().clone()
  }
  pub fn notes(&self) -> Vec<Note> {
    self.log.lock().unwrap().iter().map(|e| e.note.clone()).collect()
  }
  pub fn grammar_ok(&self) -> bool {
    let n = self.notes();
    match n.iter().position(|x| x.is_terminal()) {
      None => true,
      Some(i) => i + 1 == n.len(),
    }
  }
}

impl Observer<Item, Er> for TProbe {
  fn next(&mut self, v: Item) {
    self.deliver(Note::N(v));
    let h = self.hook.lock().unwrap().take();
    if let Some(h) = h {
      h();
    }
  }
  fn error(self, e: Er) {
    self.deliver(Note::Err(e));
  }
  fn complete(self) {
    self.deliver(Note::C);
  }
  fn is_finished(&self) -> bool {
    false
  }
}

pub fn fmt_notes(n: &[Note]) -> String {
  n.iter()
    .map(|x| match x {
      Note::N(v) => format!("{v}"),
      Note::Err(e) => format!("!{e}"),
      Note::C => "|".to_string(),
    })
    .collect::<Vec<_>>()
    .join(" ")
}

// ------------------------------------------------------------ timers
//
// Virtual time is engine E1's subject. Here a timer only has to be a point at
// which its task gives way: it is pending on the first poll (waking itself, so
// the task stays runnable) and ready on the second. A task "waiting on its
// timer" is then simply a task the controlled scheduler has not resumed yet,
// which it may postpone for as long as it likes.

thread_local! {
  static POOL: RefCell<Vec<shuttle::future::JoinHandle<()>>> = RefCell::new(vec![]);
  static SPAWNED: RefCell<u64> = RefCell::new(0);
}

pub const TICK_SECS: u64 = 1000;
pub fn ticks(n: u64) -> Duration {
  Duration::from_secs(n * TICK_SECS)
}

struct TwoPhase(bool);
impl Future for TwoPhase {
  type Output = ();
  fn poll(mut self: Pin<&mut Self>, cx: &mut Context<'_>) -> Poll<()> {
    if self.0 {
      Poll::Ready(())
    } else {
      self.0 = true;
      cx.waker().wake_by_ref();
      Poll::Pending
    }
  }
}

/// Timer of the ticker scenarios: waiting for it is a `yield_now().await` —
/// everybody else gets the chance to run first, and the explorer is charged for
/// resuming the ticker before them. A ticker whose task is never retired would
/// tick for ever: that is reported after `MAX_TICKS` waits.
pub const MAX_TICKS: u64 = 300;
async fn yield_timer() {
  let n = TIMER_WAITS.with(|c| {
    *c.borrow_mut() += 1;
    *c.borrow()
  });
  assert!(n < MAX_TICKS, "a periodic task is still ticking after {MAX_TICKS} timer waits: it was never retired");
  // pending + self-wake + "this task yields": the task's poll returns (releasing
  // whatever it holds), everybody else is offered first
  shuttle::future::yield_now().await
}

thread_local! {
  static YIELD_TIMERS: RefCell<bool> = RefCell::new(false);
  static TIMER_WAITS: RefCell<u64> = RefCell::new(0);
}

/// ticker scenarios switch to yielding timers (must follow `reset_world`)
pub fn use_yield_timers() {
  YIELD_TIMERS.with(|y| *y.borrow_mut() = true);
}

pub fn timer_waits() -> u64 {
  TIMER_WAITS.with(|c| *c.borrow())
}

fn new_vtimer(_d: Duration) -> BoxFuture<'static, ()> {
  if YIELD_TIMERS.with(|y| *y.borrow()) {
    Box::pin(yield_timer())
  } else {
    Box::pin(TwoPhase(false))
  }
}

pub fn install_timer_fn() {
  let _ = NEW_TIMER_FN.set(new_vtimer);
}

/// reset the per-execution harness state (must be the first thing a scenario
/// body does)
pub fn reset_world() {
  POOL.with(|p| p.borrow_mut().clear());
  SPAWNED.with(|s| *s.borrow_mut() = 0);
  YIELD_TIMERS.with(|y| *y.borrow_mut() = false);
  TIMER_WAITS.with(|c| *c.borrow_mut() = 0);
}

/// the most general executor: every scheduled task is its own controlled task
/// that may run at any time
pub fn pool_scheduler() -> SpawnFnScheduler {
  SpawnFnScheduler(Arc::new(|fut| {
    let h = shuttle::future::spawn(fut);
    SPAWNED.with(|s| *s.borrow_mut() += 1);
    POOL.with(|p| p.borrow_mut().push(h));
  }))
}

/// join every pool task spawned so far (tasks spawn tasks: until none is left)
pub fn drain_pool(_tick: bool) {
  let mut guard = 0;
  loop {
    let h = POOL.with(|p| {
      let mut p = p.borrow_mut();
      if p.is_empty() {
        None
      } else {
        Some(p.remove(0))
      }
    });
    match h {
      None => break,
      Some(h) => {
        let _ = shuttle::future::block_on(h);
      }
    }
    guard += 1;
    assert!(guard < 1000, "MACHINERY: pool does not drain");
  }
}

/// leak the handles of pool tasks that belong to an execution that was torn down
pub fn forget_pool() {
  POOL.with(|p| {
    for h in p.borrow_mut().drain(..) {
      std::mem::forget(h);
    }
  });
}

pub fn spawned_tasks() -> u64 {
  SPAWNED.with(|s| *s.borrow())
}
