//! Exhaustive depth-first search over thread schedules with iterative
//! preemption bounding (CHESS style), as a `shuttle` scheduler.
//!
//! At each scheduling point the options are the runnable tasks in canonical
//! order (the running task first if it is still enabled, then ascending id).
//! Choosing another task while the running one is enabled costs one
//! preemption; when the budget is spent only the running task is offered.
//! Switches away from a blocked / finished task are free. A task that yields
//! (`yield_now`: a ticker between two periods) is offered last, and resuming
//! it while another task could run is charged like a preemption.
use shuttle::scheduler::{Schedule, Scheduler, Task, TaskId};
use std::sync::{Arc, Mutex};

#[derive(Clone, Copy, Debug)]
pub struct Pt {
  pub chosen: u32,
  pub n: u32,
}

#[derive(Default, Debug)]
pub struct DfsState {
  pub bound: u32,
  /// choices to replay in the execution that is about to run / running
  pub prefix: Vec<u32>,
  /// arities seen for the prefix positions in the previous execution
  pub prefix_n: Vec<u32>,
  pub trace: Vec<Pt>,
  pub preemptions: u32,
  pub started: bool,
  pub exhausted: bool,
  pub diverged: Option<String>,
  pub yields: u64,
  pub yield_owed: Option<TaskId>,
  // statistics
  pub executions: u64,
  pub states: u64,
  pub shared: usize,
  pub max_depth: usize,
  pub max_preemptions: u32,
  /// stop after this many executions (reported as a cap)
  pub max_execs: u64,
  pub capped: bool,
  /// replay mode: run exactly `prefix` then defaults, once
  pub single: bool,
}

impl DfsState {
  pub fn new(bound: u32, max_execs: u64) -> Self {
    DfsState { bound, max_execs, ..Default::default() }
  }

  /// account for the execution that just ended and compute the next prefix;
  /// false when the tree is exhausted
  fn advance(&mut self) -> bool {
    let tr = std::mem::take(&mut self.trace);
    self.executions += 1;
    let fresh = tr.len().saturating_sub(self.shared);
    if self.executions == 1 {
      self.states += 1;
    }
    self.states += fresh as u64;
    self.max_depth = self.max_depth.max(tr.len());
    self.max_preemptions = self.max_preemptions.max(self.preemptions);
    if self.single {
      return false;
    }
    if self.executions >= self.max_execs {
      self.capped = true;
      return false;
    }
    for i in (0..tr.len()).rev() {
      if tr[i].chosen + 1 < tr[i].n {
        self.prefix = tr[..i].iter().map(|p| p.chosen).collect();
        self.prefix.push(tr[i].chosen + 1);
        self.prefix_n = tr[..=i].iter().map(|p| p.n).collect();
        self.shared = i;
        return true;
      }
    }
    false
  }

  pub fn choices(&self) -> Vec<u32> {
    self.trace.iter().map(|p| p.chosen).collect()
  }
}

#[derive(Clone)]
pub struct BoundedDfs(pub Arc<Mutex<DfsState>>);

impl Scheduler for BoundedDfs {
  fn new_execution(&mut self) -> Option<Schedule> {
    let mut s = self.0.lock().unwrap();
    if s.exhausted {
      return None;
    }
    if s.started {
      // the previous execution of this runner ended normally
      if !s.advance() {
        s.exhausted = true;
        return None;
      }
    }
    s.started = true;
    s.trace.clear();
    s.preemptions = 0;
    s.yield_owed = None;
    Some(Schedule::new(0))
  }

  fn next_task(
    &mut self,
    runnable: &[&Task],
    current: Option<TaskId>,
    is_yielding: bool,
  ) -> Option<TaskId> {
    let mut s = self.0.lock().unwrap();
    let mut opts: Vec<TaskId> = runnable.iter().map(|t| t.id()).collect();
    opts.sort();
    if is_yielding {
      s.yields += 1;
    }
    // a yield that found nobody else runnable (the others were still blocked on
    // something the yielding task was about to release) is honoured at the
    // task's next scheduling point at which somebody else can run
    let mut is_yielding = is_yielding;
    if !is_yielding {
      if let (Some(owed), Some(c)) = (s.yield_owed, current) {
        if owed == c && opts.len() > 1 && opts.contains(&c) {
          is_yielding = true;
          s.yield_owed = None;
        } else if owed != c {
          s.yield_owed = None;
        }
      }
    } else if opts.len() == 1 && current.map_or(false, |c| opts.contains(&c)) {
      s.yield_owed = current;
    } else {
      s.yield_owed = None;
    }
    let cur_on = !is_yielding && current.map_or(false, |c| opts.contains(&c));
    let mut yielder_last = false;
    if cur_on {
      let c = current.unwrap();
      opts.retain(|t| *t != c);
      opts.insert(0, c);
    } else if is_yielding {
      // a yielding task (a ticker waiting for its next period) goes last;
      // resuming it although somebody else could run costs one unit of the
      // budget, like a preemption, which keeps the tree of a never-ending
      // ticker finite
      if let Some(c) = current {
        if opts.len() > 1 && opts.contains(&c) {
          opts.retain(|t| *t != c);
          opts.push(c);
          yielder_last = true;
        }
      }
    }
    let n = if cur_on && s.preemptions >= s.bound {
      1
    } else if yielder_last && s.preemptions >= s.bound {
      opts.len() - 1
    } else {
      opts.len()
    };
    let pos = s.trace.len();
    let mut i = if pos < s.prefix.len() { s.prefix[pos] as usize } else { 0 };
    if pos < s.prefix_n.len() && s.prefix_n[pos] as usize != n && s.diverged.is_none() {
      s.diverged = Some(format!(
        "replay divergence at step {pos}: {} options recorded, {n} now",
        s.prefix_n[pos]
      ));
    }
    if i >= n {
      if s.diverged.is_none() {
        s.diverged = Some(format!("replay divergence at step {pos}: choice {i} of {n}"));
      }
      i = 0;
    }
    if (cur_on && i > 0) || (yielder_last && i + 1 == opts.len()) {
      s.preemptions += 1;
    }
    if s.single && std::env::var("SCHED_DEBUG").is_ok() {
      eprintln!("  step {pos}: runnable {opts:?} current {current:?} yielding {is_yielding} -> {:?} (n={n})", opts[i]);
    }
    s.trace.push(Pt { chosen: i as u32, n: n as u32 });
    Some(opts[i])
  }

  fn next_u64(&mut self) -> u64 {
    0
  }
}

/// Called by the driver after an execution ended by panic (the runner is gone):
/// accounts for it and prepares the next prefix.
pub fn after_abort(st: &Arc<Mutex<DfsState>>) -> bool {
  let mut s = st.lock().unwrap();
  s.started = false;
  let more = s.advance();
  if !more {
    s.exhausted = true;
  }
  more
}
