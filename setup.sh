#!/usr/bin/env bash
# Build every engine offline from files on disk (dependencies from the cargo cache).
set -e
cd "$(dirname "$0")"
export CARGO_NET_OFFLINE=true
for e in opseq sched; do
  [ -d engines/$e ] || continue
  (cd engines/$e && cargo build --release --offline)
done
