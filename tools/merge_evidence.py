#!/usr/bin/env python3
"""Merge the per-engine evidence parts of one property into evidence/<ID>.json.
Counters are summed, per-engine figures are kept under coverage.engines."""
import json, sys

def main():
    pid, out, parts = sys.argv[1], sys.argv[2], sys.argv[3:]
    docs = [json.load(open(p)) for p in parts]
    if len(docs) == 1:
        json.dump(docs[0], open(out, "w"), indent=1)
        return
    base = docs[0]
    cov = dict(base["coverage"])
    engines = {}
    sum_keys = ["states", "transitions", "traces_validated_against_impl", "evaluations",
                "distinct_nontrivial", "distinct_outcomes", "scenarios", "oracle_checks",
                "skipped_unspecified", "steps_executed_including_replays",
                "executions_that_hit_a_cap"]
    for d in docs:
        c = d["coverage"]
        engines[c.get("engine", "?")] = {k: v for k, v in c.items() if k != "samples"}
    for k in sum_keys:
        cov[k] = sum(int(d["coverage"].get(k, 0)) for d in docs)
    cov["exhaustive"] = all(bool(d["coverage"].get("exhaustive")) for d in docs)
    cov["samples"] = [s for d in docs for s in d["coverage"].get("samples", [])][:16]
    cov["rule"] = " || ".join(d["coverage"].get("rule", "") for d in docs)
    cov["violation_classes"] = [v for d in docs for v in d["coverage"].get("violation_classes", [])]
    cov["known_findings_hit"] = [v for d in docs for v in d["coverage"].get("known_findings_hit", [])]
    cov["bounds"] = {d["coverage"].get("engine", "?"): d["coverage"].get("bounds") for d in docs}
    cov["engine"] = " + ".join(d["coverage"].get("engine", "?") for d in docs)
    cov["engines"] = engines
    base["coverage"] = cov
    base["wall_s"] = sum(float(d.get("wall_s", 0)) for d in docs)
    base["violations"] = sum(int(d.get("violations", 0)) for d in docs)
    base["assumptions"] = sorted({a for d in docs for a in d.get("assumptions", [])})
    json.dump(base, open(out, "w"), indent=1)

if __name__ == "__main__":
    main()
