#!/usr/bin/env python3
"""Development helper: mechanical single-site mutants of the library, run against the
crate's own suite and then against all twenty quick checks, in parallel lanes
(/tmp/lane<k>, see rerun_seeds_parallel.py). Mutants that survive the suite AND all checks
are written to <out>/survivors.jsonl for triage (many are equivalent mutants).
Nothing registered in MANIFEST.json depends on this script.

usage: mutants.py [-j N] [-n COUNT] [--seed S] [--out DIR] [--files glob ...]
"""
import json, os, re, subprocess, sys, glob, random, threading, queue, hashlib
sys.path.insert(0, os.path.dirname(__file__))
import rerun_seeds_parallel as L

FLAKY = {"ops::delay::tests::shared_smoke", "ops::subscribe_on::test::thread_pool",
         "ops::throttle::tests::smoke_for_throttle_time", "ops::merge_all::test::it_shall_merge_all"}

def sites(path, text):
    """yield (line_no, new_line, description) for every applicable operator on every code line outside tests"""
    lines = text.split("\n")
    out = []
    in_tests = False
    for i, l in enumerate(lines):
        if re.match(r"\s*#\[cfg\(test\)\]", l) or re.match(r"\s*mod tests?\b", l):
            in_tests = True
        if in_tests:
            continue
        s = l.strip()
        if not s or s.startswith("//") or s.startswith("#[") or "verif_hooks" in l or s.startswith("use ") or s.startswith("pub use"):
            continue
        def add(new, what):
            if new != l:
                out.append((i, i + 1, [new], what))
        # whole-body replacement of the boolean state queries
        m = re.match(r"(\s*)(?:pub )?fn (is_finished|is_closed|is_empty)\(&self\) -> bool \{\s*$", l)
        if m:
            ind = m.group(1)
            for j in range(i + 1, min(i + 40, len(lines))):
                if lines[j].rstrip() == ind + "}":
                    if j > i + 1:
                        for val in ("true", "false"):
                            out.append((i + 1, j, [ind + "  " + val], f"body of {m.group(2)}() replaced by `{val}`"))
                    break
        if re.match(r"\s*return;\s*$", l):
            add(re.sub(r"\S.*$", "// (early return removed)", l), "removed an early `return;`")
        for a, b in ((" == ", " != "), (" != ", " == "), (" >= ", " > "), (" <= ", " < "), (" && ", " || "), (" || ", " && ")):
            if a in l:
                add(l.replace(a, b, 1), f"`{a.strip()}` -> `{b.strip()}`")
        m = re.search(r"(\w[\w\.\(\)]*) (<|>) (\w[\w\.\(\)]*)", l)
        if m and "<" not in l.replace(m.group(0), "") and "fn " not in l and "impl" not in l and "where" not in l and "->" not in l:
            op = m.group(2)
            add(l.replace(f" {op} ", f" {op}= ", 1), f"`{op}` -> `{op}=`")
        if re.search(r"\bif !", l):
            add(re.sub(r"\bif !", "if ", l, 1), "dropped `!` of a condition")
        elif re.search(r"\bif (.+) \{\s*$", l) and "let " not in l and "else" not in l:
            add(re.sub(r"\bif (.+) \{\s*$", r"if !(\1) {", l, 1), "negated a condition")
        for a, b in (("+= 1", "+= 2"), ("-= 1", "-= 0"), (" + 1", " + 0"), (" - 1", " - 0")):
            if a in l:
                add(l.replace(a, b, 1), f"`{a.strip()}` -> `{b.strip()}`")
        if re.match(r"\s*(true|false)\s*$", l):
            add(l.replace("true", "FALSE").replace("false", "true").replace("FALSE", "false"), "flipped a boolean result")
        if "map_or(true" in l:
            add(l.replace("map_or(true", "map_or(false", 1), "map_or(true -> map_or(false")
        elif "map_or(false" in l:
            add(l.replace("map_or(false", "map_or(true", 1), "map_or(false -> map_or(true")
        if "unwrap_or(true" in l or "unwrap_or(false" in l:
            add(l.replace("unwrap_or(true", "unwrap_or(FALSE").replace("unwrap_or(false", "unwrap_or(true").replace("FALSE", "false"), "flipped a default")
        # statement deletion: a plain call statement on one line
        if re.match(r"\s*[\w\.\(\)\*&]+\.(unsubscribe|complete|error|next|retain|append|take|clear|push|push_back|pop_front|insert|remove|wake|store|register)\([^;]*\);\s*$", l) and "let " not in l and "return" not in l:
            add(re.sub(r"\S.*$", "// (statement removed)", l), "removed the statement `" + s[:60] + "`")
        if ".pop_front()" in l:
            add(l.replace(".pop_front()", ".pop_back()", 1), "pop_front -> pop_back")
        if ".push_back(" in l:
            add(l.replace(".push_back(", ".push_front(", 1), "push_back -> push_front")
    return out

def sh(cmd, cwd=None, timeout=3600):
    p = subprocess.run(cmd, shell=True, cwd=cwd, capture_output=True, text=True, timeout=timeout)
    return p.returncode, p.stdout + p.stderr

def work(k, q, lock, out_dir):
    lane = L.setup(k)
    repo = f"{lane}/repo"
    if not os.path.isdir(f"{repo}/target"):
        sh(f"cp -r /repo/target {repo}/target")
    while True:
        try:
            mid, rel, line_no, end_no, new_lines, what = q.get_nowait()
        except queue.Empty:
            return
        sh("git checkout -q -- .", cwd=repo)
        path = f"{repo}/{rel}"
        lines = open(path).read().split("\n")
        old = " ".join(x.strip() for x in lines[line_no:end_no])
        lines[line_no:end_no] = new_lines
        open(path, "w").write("\n".join(lines))
        rec = {"id": mid, "file": rel, "line": line_no + 1, "what": what, "old": old[:200], "new": " ".join(x.strip() for x in new_lines)}
        rc, out = sh("cargo build --offline 2>&1 | tail -2; cargo build --offline --features verif_hooks 2>&1 | tail -2", cwd=repo)
        if out.count("Finished") < 2:
            rec["status"] = "does-not-compile"
        else:
            rc, out = sh("timeout 900 cargo nextest run --offline --no-fail-fast --lib 2>&1 | tail -25", cwd=repo)
            failed = set(re.findall(r"FAIL \[.*?\] .*? rxrust (\S+)", out)) | set(re.findall(r"(?:TIMEOUT|SIGABRT|SIGSEGV|LEAK-FAIL) \[.*?\] .*? rxrust (\S+)", out))
            m = re.search(r"(\d+) tests run: (\d+) passed", out)
            if m is None or not (failed <= FLAKY):
                rec["status"] = "killed-by-suite"; rec["suite_failed"] = sorted(failed)[:5]
            else:
                alarms = {}
                for i in range(1, 21):
                    c = f"C{i:02d}"
                    rc, o = L.check(lane, c)
                    if rc != 0:
                        cls = [x.strip() for x in o.splitlines() if x.strip().startswith("class=")]
                        alarms[c] = {"exit": rc, "first": cls[0][:200] if cls else o[-150:]}
                rec["alarms"] = alarms
                rec["status"] = "killed-by-checks" if any(v["exit"] == 1 for v in alarms.values()) else "SURVIVED"
                rc, diff = sh("git diff -- src", cwd=repo)
                rec["diff"] = diff
        sh("git checkout -q -- .", cwd=repo)
        with lock:
            open(f"{out_dir}/all.jsonl", "a").write(json.dumps(rec) + "\n")
            if rec["status"] == "SURVIVED":
                open(f"{out_dir}/survivors.jsonl", "a").write(json.dumps(rec) + "\n")
            print(mid, rec["status"], rel, line_no + 1, what, sorted(rec.get("alarms", {}).keys())[:6], flush=True)

def recheck(path, n_lanes, base):
    """re-run all twenty checks on the survivors recorded in <path> (their diffs), against the current machinery"""
    recs = [json.loads(l) for l in open(path)]
    q = queue.Queue()
    for r in recs:
        q.put(r)
    lock = threading.Lock()
    def w(k):
        lane = L.setup(base + k)
        repo = f"{lane}/repo"
        while True:
            try:
                r = q.get_nowait()
            except queue.Empty:
                return
            sh("git checkout -q -- .", cwd=repo)
            open(f"{lane}/m.diff", "w").write(r["diff"])
            rc, out = sh(f"git apply {lane}/m.diff", cwd=repo)
            if rc != 0:
                with lock: print(r["id"], "diff does not apply", flush=True)
                continue
            alarms = []
            for i in range(1, 21):
                c = f"C{i:02d}"
                rc, o = L.check(lane, c)
                if rc == 1:
                    alarms.append(c)
            sh("git checkout -q -- .", cwd=repo)
            with lock:
                print(r["id"], "STILL-SURVIVES" if not alarms else "now-killed-by " + ",".join(alarms), r["file"], r["line"], r["what"], flush=True)
    ts = [threading.Thread(target=w, args=(k,)) for k in range(n_lanes)]
    for t in ts: t.start()
    for t in ts: t.join()

def main():
    a = sys.argv[1:]
    if a[:1] == ["--recheck"]:
        recheck(a[1], int(a[2]) if len(a) > 2 else 4, int(a[3]) if len(a) > 3 else 30)
        return
    n_lanes, count, seed, out_dir, files = 5, 100, 1, "/tmp/mutants", []
    while a:
        x = a.pop(0)
        if x == "-j": n_lanes = int(a.pop(0))
        elif x == "-n": count = int(a.pop(0))
        elif x == "--seed": seed = int(a.pop(0))
        elif x == "--out": out_dir = a.pop(0)
        elif x == "--files":
            while a and not a[0].startswith("-"): files.append(a.pop(0))
    os.makedirs(out_dir, exist_ok=True)
    if not files:
        files = ["src/ops/*.rs", "src/observable/*.rs", "src/subject.rs", "src/subject/*.rs", "src/scheduler.rs",
                 "src/subscription.rs", "src/subscriber.rs", "src/observer.rs", "src/behavior.rs", "src/observable.rs"]
    allsites = []
    for g in files:
        for f in sorted(glob.glob(f"/repo/{g}")):
            rel = os.path.relpath(f, "/repo")
            if rel.endswith("fake_timer.rs") or rel.endswith("verif_hooks.rs"):
                continue
            for (i, e, new, what) in sites(rel, open(f).read()):
                allsites.append((rel, i, e, new, what))
    rnd = random.Random(seed)
    rnd.shuffle(allsites)
    print(len(allsites), "mutation sites; running", min(count, len(allsites)), flush=True)
    q = queue.Queue()
    for j, (rel, i, e, new, what) in enumerate(allsites[:count]):
        q.put((f"m{seed}-{j:03d}", rel, i, e, new, what))
    lock = threading.Lock()
    ts = [threading.Thread(target=work, args=(k, q, lock, out_dir)) for k in range(n_lanes)]
    for t in ts: t.start()
    for t in ts: t.join()

if __name__ == "__main__":
    main()
