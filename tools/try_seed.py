#!/usr/bin/env python3
"""Confirm one independently seeded change and run the checks against it.

usage: try_seed.py <PROP> <k> <worktree> [extra check ids...]

1. in the scratch worktree: apply SEED/patch<k>.diff, build, run the crate's own suite
   (must pass, the known flaky test aside), run SEED/demo<k>.rs as an integration test
   (must fail); revert; run the demo again (must pass);
2. apply the patch to /repo, run ./check <PROP> (quick) and any extra checks, undo;
3. store everything under /verif/seeded/<PROP>-<k>/.
"""
import json, os, shutil, subprocess, sys, re

# wall-clock based tests of the crate that fail now and then on a loaded machine (pristine tree included)
FLAKY = {"ops::delay::tests::shared_smoke", "ops::subscribe_on::test::thread_pool",
         "ops::throttle::tests::smoke_for_throttle_time", "ops::merge_all::test::it_shall_merge_all",
         "ops::delay::tests::fix_delay_op_should_delay_value_emit"}

def sh(cmd, cwd=None, timeout=3600):
    p = subprocess.run(cmd, shell=True, cwd=cwd, capture_output=True, text=True, timeout=timeout)
    return p.returncode, p.stdout + p.stderr

def suite(wt):
    rc, out = sh("cargo nextest run --offline --no-fail-fast --lib 2>&1 | tail -15", cwd=wt)
    failed = set(re.findall(r"FAIL \[.*?\] .*? rxrust (\S+)", out))
    m = re.search(r"(\d+) tests run: (\d+) passed", out)
    return (m is not None and failed <= FLAKY), sorted(failed), (m.group(0) if m else out[-300:])

def demo(wt, k):
    os.makedirs(f"{wt}/tests", exist_ok=True)
    shutil.copy(f"{wt}/SEED/demo{k}.rs", f"{wt}/tests/demo{k}.rs")
    rc, out = sh(f"timeout 600 cargo test --offline --test demo{k} 2>&1 | tail -8", cwd=wt)
    os.remove(f"{wt}/tests/demo{k}.rs")
    ok = "test result: ok" in out
    return ok, out[-400:]

def main():
    pid, k, wt = sys.argv[1], sys.argv[2], sys.argv[3]
    extra = sys.argv[4:]
    patch = f"{wt}/SEED/patch{k}.diff"
    res = {"property": pid, "seed": k}
    sh("git checkout -- . ; rm -rf tests", cwd=wt)
    rc, out = sh(f"git apply --check {patch}", cwd=wt)
    if rc != 0:
        print("patch does not apply:", out); sys.exit(1)
    sh(f"git apply {patch}", cwd=wt)
    rc, out = sh("cargo build --offline 2>&1 | tail -3", cwd=wt)
    res["builds"] = "Finished" in out
    ok, failed, summ = suite(wt)
    res["suite_passes_with_patch"] = ok
    res["suite_summary"] = summ
    res["suite_failed"] = failed
    dok, dout = demo(wt, k)
    res["demo_fails_with_patch"] = not dok
    sh("git checkout -- .", cwd=wt)
    dok2, dout2 = demo(wt, k)
    res["demo_passes_pristine"] = dok2
    sh("git checkout -- . ; rm -rf tests", cwd=wt)
    confirmed = res["builds"] and ok and (not dok) and dok2
    res["confirmed"] = confirmed
    # ---- our checks against it
    checks = {}
    if os.environ.get("CONFIRM_ONLY"):
        # the checks are run afterwards by tools/rerun_seeds_parallel.py (scratch lanes, /repo untouched)
        checks = {c: {} for c in [pid] + extra}
    else:
        rc, out = sh("git status --porcelain", cwd="/repo")
        if out.strip():
            print("/repo not clean:", out); sys.exit(1)
        sh(f"git apply {patch}", cwd="/repo")
        try:
            for c in [pid] + extra:
                rc, out = sh(f"timeout 1500 ./check {c} --tier quick 2>&1", cwd="/verif")
                viol = [l for l in out.splitlines() if l.startswith("VIOLATION")]
                classes = [l.strip() for l in out.splitlines() if l.strip().startswith("class=")]
                checks[c] = {"exit": rc, "violation_lines": len(viol), "first": (classes[0][:400] if classes else "")}
        finally:
            sh("git checkout -- .", cwd="/repo")
    res["checks"] = checks
    res["detected_by_own_property_check"] = checks[pid].get("exit") == 1
    dst = f"/verif/seeded/{pid}-{int(k) + int(os.environ.get('SEED_OFFSET', '0'))}"
    if os.environ.get('SEED_NAME'):
        dst = f"/verif/seeded/{os.environ['SEED_NAME']}"
    os.makedirs(dst, exist_ok=True)
    shutil.copy(patch, f"{dst}/patch.diff")
    shutil.copy(f"{wt}/SEED/demo{k}.rs", f"{dst}/demo.rs")
    try:
        meta = json.load(open(f"{wt}/SEED/meta{k}.json"))
    except Exception as e:
        meta = {"property": pid, "what": "(agent meta unreadable)", "needs": ""}
    meta["author"] = "independent sub-agent given only the property text and a scratch worktree"
    meta["confirmed_here"] = {k2: res[k2] for k2 in ["builds", "suite_passes_with_patch", "suite_summary", "suite_failed", "demo_fails_with_patch", "demo_passes_pristine", "confirmed"]}
    meta["ran_here"] = ["git apply patch.diff (scratch worktree)", "cargo build --offline", "cargo nextest run --offline --no-fail-fast --lib", f"cargo test --offline --test demo (with patch: must fail; pristine: must pass)", "git -C /repo apply patch.diff; ./check <id> --tier quick; git -C /repo checkout -- ."]
    meta["checks"] = checks
    json.dump(meta, open(f"{dst}/meta.json", "w"), indent=1)
    print(json.dumps(res, indent=1))

if __name__ == "__main__":
    main()
