#!/usr/bin/env python3
"""Regenerate the table of DESIGN.md §13 from evidence/*.json (quick tier on the unchanged tree)."""
import json, glob, os
rows = []
for f in sorted(glob.glob("/verif/evidence/C*.json")):
    d = json.load(open(f)); c = d["coverage"]
    rows.append("| {} | {} | {} | {} | {} | {} | {} | `{}` | {:.1f} |".format(
        d["property_id"], c["engine"], c["states"], c["transitions"], c["evaluations"],
        c["distinct_nontrivial"], c["distinct_outcomes"], json.dumps(c["bounds"], sort_keys=True), d["wall_s"]))
    assert d["tier"] == "quick", f
table = ("| property | engines | states | transitions | executions | non-trivial | outcomes | bounds (quick) | wall s |\n"
         "|---|---|---|---|---|---|---|---|---|\n" + "\n".join(rows) + "\n")
p = "/verif/DESIGN.md"; s = open(p).read()
b, e = "<!-- coverage-table:begin -->\n", "<!-- coverage-table:end -->\n"
i, j = s.index(b) + len(b), s.index(e)
open(p, "w").write(s[:i] + table + s[j:])
print(len(rows), "rows")
