#!/usr/bin/env python3
"""Regenerates MANIFEST.json from the table below (kept in one place so that the
claimed set, techniques and not_applicable list never drift apart)."""
import json, os, subprocess

ROOT = os.path.dirname(os.path.dirname(os.path.abspath(__file__)))
BASELINE = ("cd /repo && cargo nextest run --workspace --no-fail-fast --tool-config-file "
            "pb:/w/lib/nextest.toml --profile pb --test-threads 8 --offline")

E1 = "E1 opseq"
E2 = "E2 sched"
TB_E1 = ("trusted: rustc, futures LocalPool, the harness' virtual clock behind the library's NEW_TIMER_FN seam, "
         "the gating scheduler wrapper (delegates to the real LocalSpawner impl of Scheduler), transparency of box_it between stages; "
         "bounded: see coverage.bounds in the evidence file")
TB_E2 = ("trusted: rustc, shuttle 0.9.3 runtime (sequentially consistent, switches at sync operations), the cfg-swapped Mutex/atomics of feature verif_hooks; "
         "bounded by the preemption bound reported in the evidence file")

# id -> (engines, technique, level text, design ref)
CHECKS = {
 "C01": ([E1], "bounded-exhaustive enumeration of pipelines x event histories on the real operators with a notification-grammar monitor on every probe",
         "Every generated pipeline (whole catalogue, local and _threads forms, chains, two-input shapes, diamonds, flattening, multicast) is driven through every action history up to the length bound, with events continuing after terminals, and the grammar next*(error|complete)? is checked on every probe after every action.", "5/C01"),
 "C02": ([E1, E2], "bounded-exhaustive enumeration of pipelines x action sequences x every unsubscription point x deviation-bounded scheduler run orders on the real operators under a virtual clock; plus exhaustive preemption-bounded DFS over interleavings of an emitting and an unsubscribing thread",
         "Every generated pipeline (every scheduler-using stage alone and combined with every catalogue entry, two-input shapes, flattening, share, timer sources; both forms) is driven through every action sequence up to the length bound with unsubscribe()/guard drop injected at every position, then everything still scheduled is run out in every order within the deviation bound; the probe must never grow after unsubscribe() returned. (The racing-thread half is served by engine E2 ; see coverage.engines in the evidence file.)", "5/C02"),
 "C03": ([E1], "bounded-exhaustive enumeration of operator chains x event histories on the real operators, compared step by step with a list-based reference interpreter",
         "Every chain of catalogue operators up to the depth bound is run on every event history up to the length bound (hot subject, hot create(), cold create()/from_iter() delivery, every basic source, the sources also observed by a subscriber that reports itself finished after 0-2 notifications) and the probe trace must equal the reference interpreter after every single event; nothing is sampled.", "5/C03"),
 "C04": ([E1, E2], "bounded-exhaustive enumeration of merged input timelines on the real two-input operators, compared step by step with per-operator reference functions; plus exhaustive preemption-bounded DFS over interleavings of two threads driving the two inputs of the _threads forms (final-state oracle)",
         "For every two-input combinator in both forms every merged timeline of the two inputs up to the length bound (terminals of either input at every position, cold synchronous inputs on either side) is executed and compared with the reference function after every event; with one thread per input every schedule within the preemption bound is executed and the output is compared with what the definition allows for any interleaving (pairing, one-step combinations, prefix / suffix / concatenation clauses, completion).", "5/C04"),
 "C05": ([E1, E2], "bounded-exhaustive enumeration of outer/inner event interleavings on the real flattening operators against a FIFO reference model, with a live-subscription counter and hang/panic detection; plus exhaustive preemption-bounded DFS over interleavings of the outer-delivering and an inner-completing thread on merge_all_threads",
         "Every interleaving up to the length bound of outer items/terminals and inner items/terminals over cold and hot inner observables is run through merge_all(n)/concat_all/flatten/flat_map/concat_map (both forms); exact output, concurrency limit, and return of every call are checked at every step.", "5/C05"),
 "C06": ([E1, E2], "bounded-exhaustive enumeration of operation sequences on the five real subject types against a list model; plus exhaustive preemption-bounded DFS over interleavings of 2-3 threads sharing a SubjectThreads",
         "Every sequence up to the length bound of subscribe/unsubscribe/next/error/complete/retain/unsubscribe-subject/subscribe-from-a-callback is executed on each subject type; all probe traces and API answers are compared with the model after every operation. (The concurrent half is served by engine E2 ; see coverage.engines in the evidence file.)", "5/C06"),
 "C07": ([E1, E2], "bounded-exhaustive enumeration of timed source scripts x deviation-bounded scheduler run orders (FIFO and any-ready-task-next executor models) on the real observe_on/delay/subscribe_on family under a virtual clock; plus exhaustive preemption-bounded DFS over interleavings of emitting threads with the per-notification pool tasks of observe_on_threads / delay_threads (nothing lost, invented or duplicated)",
         "Every sequence up to the length bound of source events, clock ticks and task runs is executed for observe_on, delay, delay_at, delay_subscription(_at), subscribe_on (both forms where they exist) under the FIFO-prompt model and under the any-order model with a bounded number of deviations; no invention/duplication/early delivery ever, exact order and timing under FIFO, completeness once everything ran out.", "5/C07"),
 "C08": ([E1], "bounded-exhaustive enumeration of clock advances, poll orders and async scripts on the real interval/timer/from_future/from_stream sources under a virtual clock",
         "Every environment sequence up to the length bound (single ticks, jumps over several periods, run order of ready tasks within the deviation bound, wake-ups of pending futures/streams, every async script up to the length bound) is executed; values, earliest times, exact times under the prompt model and relay completeness are checked after every step.", "5/C08"),
 "C09": ([E1, E2], "bounded-exhaustive enumeration of timed source scripts x same-instant orderings on the real rate-limiting operators against timed list models; plus exhaustive preemption-bounded DFS over interleavings of emitting threads with the timer tasks of debounce / throttle_time and with the notifier thread of sample_threads",
         "Every sequence up to the length bound of source events, ticks and task runs (one deviation = both orders of a same-instant source event and timer) is executed for debounce, throttle(_time) x 3 edges, sample(interval), buffer_with_time, buffer_with_count_and_time; generic no-invention/no-duplication/order/buffer clauses under every run order and the exact timed model under the prompt executor.", "5/C09"),
 "C10": ([E2], "exhaustive preemption-bounded DFS over thread interleavings (CHESS-style iterative context bounding, own scheduler on the shuttle runtime) of real _threads code",
         "Two and three controlled threads run short scripts of next/complete/error/subscribe/unsubscribe against a shared SubjectThreads and against every _threads operator family; every schedule within the preemption bound is executed (scheduling points at every MutArc lock/unlock, controlled atomics, spawn/join, wake-ups); overlap detector, notification grammar, common order, and completion of every thread (deadlock and lost wake-up are reported by the runtime) are checked on each. The statement's `randomised beyond the bound` part is sampling and is not claimed.", "5/C10"),
 "C11": ([E1, E2], "bounded-exhaustive enumeration of join/leave/emit/connect histories on the real share/publish operators with upstream counters; plus exhaustive preemption-bounded DFS over two threads joining share_threads concurrently",
         "Every history up to the length bound of subscribe/unsubscribe/source events/connect is executed for share, share_threads and publish; source-subscription and upstream-tap counters and every subscriber trace are checked after every step.", "5/C11"),
 "C12": ([E1, E2], "bounded-exhaustive enumeration of operation sequences on the real BehaviorSubject (both subject kinds) against a one-cell model; plus exhaustive preemption-bounded DFS over interleavings of producers and a late subscriber",
         "Every sequence up to the length bound of next/next_by/clone/subscribe/unsubscribe/complete/error is executed; every probe trace and peek() of every handle are compared with the model after every operation. (The two-producer race is served by engine E2 ; see coverage.engines in the evidence file.)", "5/C12"),
 "C13": ([E1], "bounded-exhaustive enumeration of cloneable operator chains x cold scripts with repeated and nested subscriptions of clones, counting closure/iterator/tap calls",
         "Every chain up to the depth bound of cloneable operators over every cold source and script is built (counters must stay 0), subscribed three times through clones and once more from inside a callback; traces must be identical and equal to the list model, per-subscription work identical, source closures exactly once.", "5/C13"),
 "C14": ([E1, E2], "bounded-exhaustive enumeration of source scripts x every placement of polls on the real to_future/to_stream/collect/complete_status with a counting waker; plus exhaustive preemption-bounded DFS over interleavings of a producer and a waiting thread",
         "Every sequence up to the length bound of next/complete/error/poll is executed against each conversion; every poll result, waker wake-up and status flag is compared with the documented outcome, and after the source's terminal the conversion must be ready. (The producer/waiter thread race is served by engine E2 ; see coverage.engines in the evidence file.)", "5/C14"),
 "C15": ([E1, E2], "bounded-exhaustive enumeration of terminal/unsubscribe sequences on the real finalize operators with an invocation counter; plus exhaustive preemption-bounded DFS over interleavings of terminating and unsubscribing threads",
         "Every sequence up to the length bound of next/complete/error/unsubscribe (terminals through cloned handles) on four pipeline shapes in both forms; the finalizer counter must be 0 before the first trigger and exactly 1 from the return of the triggering call on. (The terminating-vs-unsubscribing thread race is served by engine E2 ; see coverage.engines in the evidence file.)", "5/C15"),
 "C16": ([E1], "bounded-exhaustive enumeration of producer x intermediate-stage x cutter pipelines (and producers in second-input position) on the real operators under a virtual clock, with pull/emission counters and an idle-pool check",
         "Every producer (interval, interval_at, from_iter, from_stream, timer, operator-owned tickers) under every stage sequence up to the depth bound and every early-terminating operator, as main and as second input of every two-input operator, in both forms: after the subscriber's terminal at most one more pull/emission happens and the pool is idle (no ready task, no live timer) within one period + 2 ticks.", "5/C16"),
 "C17": ([E1, E2], "bounded-exhaustive enumeration of pipelines x action histories with is_closed() sampled after every action, plus operation sequences on composite subscriptions over controllable children; plus exhaustive preemption-bounded DFS over threads appending to / unsubscribing a MultiSubscriptionThreads",
         "The C01 pipeline set (every subscription type) is driven through every action history with unsubscribe at every position and is_closed() sampled after each action: never true then false, nothing delivered after true; every sequence of append/child-finishes/retain/clone/unsubscribe on MultiSubscription(+Threads) and ZipSubscription.", "5/C17"),
 "C18": ([E1], "bounded-exhaustive differential execution of every generated pipeline in its all-local and all-thread-safe instantiation over the same action histories",
         "The C01 pipeline set is built twice from the same AST (local types vs *_threads / *Threads types) and both instances are driven through every action history up to the length bound (events on every input, ticks, one unsubscribe); traces must be identical after every action.", "5/C18"),
 "C19": ([E1, E2], "bounded-exhaustive enumeration of task sets x cancellation points x run orders x clock advances on the real scheduler (LocalSpawner) behind a gate; plus exhaustive preemption-bounded DFS over interleavings of a running task body and a thread cancelling its handle",
         "Sets of 1-3 tasks of every task type with every delay are scheduled on the real LocalSpawner implementation; every sequence of cancel/resolve/tick/jump/run-in-any-order up to the length bound is executed and run counters, times, sequence numbers, cancellation and is_closed() are checked after every action.", "5/C19"),
 "C20": ([E1], "bounded-exhaustive enumeration of input scripts x key functions on the real group_by with a probe attached to every group at announcement",
         "Every script up to the length bound over a 4-value alphabet with every terminal and three key functions is executed on both subject kinds; announcements, per-group traces and the flattened output are compared with the model after every event.", "5/C20"),
}

# properties not (yet) claimed -> reason
NOT_APPLICABLE = {
}

def main():
    props = [json.loads(l) for l in open(os.path.join(ROOT, "properties.jsonl"))]
    ids = [p["id"] for p in props]
    checks = []
    for pid in ids:
        if pid not in CHECKS:
            continue
        engines, tech, text, ref = CHECKS[pid]
        note = TB_E1 if engines == [E1] else (TB_E2 if engines == [E2] else TB_E1 + " || " + TB_E2)
        checks.append({
            "property_id": pid,
            "quick_cmd": f"./check {pid} --tier quick",
            "thorough_cmd": f"./check {pid} --tier thorough",
            "evidence_file": f"/verif/evidence/{pid}.json",
            "replay_cmd_template": f"./check {pid} --replay {{path}}",
            "engine": " + ".join(engines),
            "level_claimed": {"category": "model_checking", "text": text, "design_ref": f"DESIGN.md §{ref}"},
            "level_note": note,
            "technique": tech,
        })
    na = []
    for pid in ids:
        if pid in CHECKS:
            continue
        na.append({"property_id": pid, "reason": NOT_APPLICABLE.get(pid, "check not built yet in this tree; planned engine and oracle are in DESIGN.md §5 (no verdict is claimed until the check exists)")})
    try:
        hooks = subprocess.run(["git", "-C", "/repo", "log", "--format=%h %s", "--grep=^verif-hook"], capture_output=True, text=True).stdout.split("\n")
        hook_commits = [l.split()[0] for l in hooks if l.strip()]
    except Exception:
        hook_commits = []
    m = {
        "version": 1,
        "setup_cmd": "./setup.sh",
        "hooks": {
            "guard": "verif_hooks",
            "enable": "cargo feature `verif_hooks` of the rxrust crate (engines/sched depends on /repo with features = [\"futures-scheduler\", \"verif_hooks\"]); engine E1 uses no hook",
            "baseline_off_cmd": BASELINE,
            "source_commits": hook_commits,
            "add_only": True,
        },
        "engines": [
            {"name": E1, "path": "engines/opseq", "serves_properties": [p for p in ids if p in CHECKS and E1 in CHECKS[p][0]],
             "kind_free_text": "stateless exhaustive exploration (DFS over environment choice sequences with re-execution, deviation-bounded for scheduler run orders) of real rxRust pipelines built at run time, under a virtual clock and a gating scheduler; hooks off"},
            {"name": E2, "path": "engines/sched", "serves_properties": [p for p in ids if p in CHECKS and E2 in CHECKS[p][0]],
             "kind_free_text": "exhaustive preemption-bounded DFS over thread interleavings of real _threads code on the shuttle runtime with an own scheduler implementation; hooks on"},
        ],
        "checks": checks,
        "not_applicable": na,
        "notes": "All checks: exit 0 held / exit 1 + VIOLATION line / exit 2 machinery failure. Known findings: known_findings.json (read-only at run time).",
    }
    json.dump(m, open(os.path.join(ROOT, "MANIFEST.json"), "w"), indent=1)
    print("claimed:", [c["property_id"] for c in checks], "not_applicable:", [n["property_id"] for n in na])

if __name__ == "__main__":
    main()
