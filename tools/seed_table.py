#!/usr/bin/env python3
"""Regenerate the per-seed table of DESIGN.md §12 from seeded/*/meta.json
(between the markers <!-- seed-table:begin --> and <!-- seed-table:end -->)."""
import json, glob, os, re

def key(name):
    a, b = name.split("-")
    return (a[0] != "C", a, int(b))

rows = []
for d in sorted(glob.glob("/verif/seeded/*-*"), key=lambda d: key(os.path.basename(d))):
    name = os.path.basename(d)
    m = json.load(open(f"{d}/meta.json"))
    det = m.get("detected_by")
    if det is None:
        det = [c for c, v in m.get("checks", {}).items() if v.get("exit") == 1]
    first = ""
    for c in det:
        f = m["checks"][c].get("first", "")
        mm = re.match(r"class=(.*?) scenario=", f)
        if mm:
            first = mm.group(1); break
    what = str(m.get("what", "")).replace("|", "/").replace("\n", " ")[:150]
    note = str(m.get("note", "")).replace("|", "/").replace("\n", " ")[:160]
    wr = str(m.get("property", ""))[:3]
    label = name if name[0] == "C" else f"{name} (for {wr})"
    rows.append(f"| {label} | {what} | {', '.join(det) if det else '—'} | `{first}` | {note} |")
table = "| seed | change | reported by | class | note |\n|---|---|---|---|---|\n" + "\n".join(rows) + "\n"
p = "/verif/DESIGN.md"
s = open(p).read()
b, e = "<!-- seed-table:begin -->\n", "<!-- seed-table:end -->\n"
i, j = s.index(b) + len(b), s.index(e)
open(p, "w").write(s[:i] + table + s[j:])
print(len(rows), "rows")
