#!/usr/bin/env python3
"""Run every quick check against a behaviour-preserving change (false-alarm test).

usage: try_benign.py <worktree> <k> <name>
Applies <worktree>/SEED/patch<k>.diff to /repo, runs ./check C01..C20 --tier quick,
undoes the patch, stores patch + outcome under /verif/benign/<name>/."""
import json, os, shutil, subprocess, sys

def sh(cmd, cwd=None, timeout=3600):
    p = subprocess.run(cmd, shell=True, cwd=cwd, capture_output=True, text=True, timeout=timeout)
    return p.returncode, p.stdout + p.stderr

def main():
    wt, k, name = sys.argv[1:4]
    only = sys.argv[4:]
    patch = f"{wt}/SEED/patch{k}.diff" if wt != "-" else f"/verif/benign/{name}/patch.diff"
    rc, out = sh("git status --porcelain", cwd="/repo")
    if out.strip():
        print("/repo not clean:", out); sys.exit(1)
    rc, out = sh(f"git apply --check {patch}", cwd="/repo")
    if rc != 0:
        print("patch does not apply:", out); sys.exit(1)
    sh(f"git apply {patch}", cwd="/repo")
    res = {}
    try:
        for i in range(1, 21):
            c = f"C{i:02d}"
            if only and c not in only:
                continue
            rc, out = sh(f"timeout 1500 ./check {c} --tier quick 2>&1", cwd="/verif")
            cls = [l.strip() for l in out.splitlines() if l.strip().startswith("class=")]
            res[c] = {"exit": rc, "first": cls[0][:400] if cls else ("" if rc == 0 else out[-400:])}
    finally:
        sh("git checkout -- .", cwd="/repo")
    dst = f"/verif/benign/{name}"
    os.makedirs(dst, exist_ok=True)
    if wt != "-":
        shutil.copy(patch, f"{dst}/patch.diff")
        try:
            meta = json.load(open(f"{wt}/SEED/meta{k}.json"))
        except Exception:
            meta = {"what": "(agent meta unreadable)"}
    else:
        meta = json.load(open(f"{dst}/meta.json"))
    meta["author"] = "independent sub-agent asked for a behaviour-preserving refactoring (all twenty property texts, a scratch worktree, nothing from /verif)"
    if only and "checks" in meta:
        meta["checks"].update(res)
    else:
        meta["checks"] = res
    meta["alarms"] = [c for c, v in meta["checks"].items() if v["exit"] != 0]
    json.dump(meta, open(f"{dst}/meta.json", "w"), indent=1)
    print(name, "alarms:", meta["alarms"])
    for c in meta["alarms"]:
        print("   ", c, meta["checks"][c]["exit"], meta["checks"][c]["first"][:300])

if __name__ == "__main__":
    main()
