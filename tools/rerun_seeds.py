#!/usr/bin/env python3
"""Re-run the quick check of each seeded change's own property (plus the extra checks
recorded for it) against the current machinery and store the outcome in meta.json.
Applies each patch to /repo and undoes it straight afterwards."""
import json, os, subprocess, sys, glob

def sh(cmd, cwd=None, timeout=3600):
    p = subprocess.run(cmd, shell=True, cwd=cwd, capture_output=True, text=True, timeout=timeout)
    return p.returncode, p.stdout + p.stderr

def main():
    only = sys.argv[1:]
    rc, out = sh("git status --porcelain", cwd="/repo")
    if out.strip():
        print("/repo not clean"); sys.exit(1)
    rows = []
    for d in sorted(glob.glob("/verif/seeded/*-*")):
        name = os.path.basename(d)
        if only and name not in only:
            continue
        meta = json.load(open(f"{d}/meta.json"))
        pid = name.split("-")[0]
        if not (pid.startswith("C") and pid[1:].isdigit()):
            pid = str(meta.get("property", "")).strip()[:3]
        checks = [pid] + [c for c in meta.get("checks", {}) if c != pid]
        rc, out = sh(f"git apply {d}/patch.diff", cwd="/repo")
        if rc != 0:
            print(name, "patch does not apply", out); continue
        res = {}
        try:
            for c in checks:
                rc, out = sh(f"timeout 1500 ./check {c} --tier quick 2>&1", cwd="/verif")
                cls = [l.strip() for l in out.splitlines() if l.strip().startswith("class=")]
                res[c] = {"exit": rc, "first": cls[0][:300] if cls else ""}
        finally:
            sh("git checkout -- .", cwd="/repo")
        meta["checks"] = res
        meta["detected_by"] = [c for c, v in res.items() if v["exit"] == 1]
        json.dump(meta, open(f"{d}/meta.json", "w"), indent=1)
        rows.append((name, meta["detected_by"]))
        print(name, "detected by", meta["detected_by"], flush=True)
    # restore evidence for the unchanged tree is the caller's job (re-run the checks)

if __name__ == "__main__":
    main()
