#!/usr/bin/env python3
"""Development helper: re-run the quick checks of every stored seed in N parallel lanes.

Each lane has its own scratch worktree of /repo, its own copy of the engines (path
dependency, target dir and output root rewritten to the lane) under /tmp/lane<k>, so
/repo itself is never touched. Results go into seeded/<name>/meta.json exactly like
tools/rerun_seeds.py. Nothing registered in MANIFEST.json depends on this script.

usage: rerun_seeds_parallel.py [-j N] [--lane-base B] [--benign] [names...]   (--benign: all twenty quick checks on every stored behaviour-preserving change)
"""
import json, os, subprocess, sys, glob, re, threading, queue

def sh(cmd, cwd=None, timeout=7200):
    p = subprocess.run(cmd, shell=True, cwd=cwd, capture_output=True, text=True, timeout=timeout)
    return p.returncode, p.stdout + p.stderr

def props_of(var):
    txt = open("/verif/check").read()
    m = re.search(var + r'="([^"]*)"', txt)
    return m.group(1).split()

E1, E2 = props_of("E1_PROPS"), props_of("E2_PROPS")

def setup(k):
    lane = f"/tmp/lane{k}"
    if not os.path.isdir(f"{lane}/repo"):
        os.makedirs(lane, exist_ok=True)
        sh(f"git -C /repo worktree add --detach {lane}/repo")
        sh(f"cp /repo/Cargo.lock {lane}/repo/")
    sh(f"git -C {lane}/repo checkout -q --detach $(git -C /repo rev-parse HEAD); git -C {lane}/repo checkout -q -- .")
    for e in ("opseq", "sched"):
        os.makedirs(f"{lane}/engines/{e}", exist_ok=True)
        sh(f"rsync -a --delete --exclude target /verif/engines/{e}/ {lane}/engines/{e}/")
        sh(f"sed -i 's#path = \"/repo\"#path = \"{lane}/repo\"#' {lane}/engines/{e}/Cargo.toml")
        sh(f"sed -i 's#/verif/.target/#{lane}/target/#' {lane}/engines/{e}/Cargo.toml {lane}/engines/{e}/.cargo/config.toml")
        sh(f"grep -rl 'VERIF_ROOT: &str = \"/verif\"' {lane}/engines/{e}/src | xargs -r sed -i 's#VERIF_ROOT: &str = \"/verif\"#VERIF_ROOT: \\&str = \"{lane}/root\"#'")
    os.makedirs(f"{lane}/root/replays", exist_ok=True)
    os.makedirs(f"{lane}/root/evidence", exist_ok=True)
    sh(f"cp /verif/known_findings.json {lane}/root/")
    return lane

def check(lane, pid):
    out_all, rc_all = "", 0
    for eng, props in (("opseq", E1), ("sched", E2)):
        if pid not in props:
            continue
        for attempt in range(3):
            rc, out = sh("cargo build --release --offline 2>&1 | tail -12", cwd=f"{lane}/engines/{eng}")
            if "Finished" in out or "signal: 9" not in out:
                break
            # the compiler was killed (memory pressure on the shared machine): wait and try again
            import time; time.sleep(60)
        if "Finished" not in out:
            return 2, "build failed: " + out[-600:]
        rc, out = sh(f"VERIF_EVIDENCE_OUT={lane}/root/evidence/{pid}.{eng}.json timeout 1500 {lane}/target/{eng}/release/{eng} {pid} --tier quick 2>&1 | grep -v -E '^Test deadlocked, and|^Task failed, serializing schedule|^test panicked in task'")
        out_all += out
        if rc not in (0, 1) and "VIOLATION" not in out:
            # killed / crashed engine: a machinery failure, never a verdict
            rc_all = max(rc_all, 2) if rc_all != 1 else 1
        if "VIOLATION" in out:
            rc_all = 1
        elif rc_all == 0 and "MACHINERY" in out:
            rc_all = 2
    return rc_all, out_all

def work(k, q, lock):
    lane = setup(k)
    while True:
        try:
            d = q.get_nowait()
        except queue.Empty:
            return
        name = os.path.basename(d)
        meta = json.load(open(f"{d}/meta.json"))
        benign = "/benign/" in d
        pid = name.split("-")[0]
        if not (pid.startswith("C") and pid[1:].isdigit()):
            pid = str(meta.get("property", "")).strip()[:3]
        if benign:
            checks = [f"C{i:02d}" for i in range(1, 21)]
        else:
            checks = [pid] + [c for c in meta.get("checks", {}) if c != pid]
        sh(f"git -C {lane}/repo checkout -q -- .")
        rc, out = sh(f"git -C {lane}/repo apply {d}/patch.diff")
        if rc != 0:
            with lock:
                print(name, "patch does not apply", out[:200], flush=True)
            continue
        res = {}
        for c in checks:
            rc, out = check(lane, c)
            cls = [l.strip() for l in out.splitlines() if l.strip().startswith("class=")]
            res[c] = {"exit": rc, "first": cls[0][:300] if cls else ("" if rc == 0 else out[-200:])}
        sh(f"git -C {lane}/repo checkout -q -- .")
        meta["checks"] = res
        if benign:
            meta["alarms"] = [c for c, v in res.items() if v["exit"] != 0]
        else:
            meta["detected_by"] = [c for c, v in res.items() if v["exit"] == 1]
        json.dump(meta, open(f"{d}/meta.json", "w"), indent=1)
        with lock:
            if benign:
                print(name, "alarms", meta["alarms"], flush=True)
            else:
                print(name, "detected by", meta["detected_by"], [c for c, v in res.items() if v["exit"] == 2], flush=True)

def main():
    args = sys.argv[1:]
    n, base = 4, 0
    if args[:1] == ["-j"]:
        n = int(args[1]); args = args[2:]
    if args[:1] == ["--lane-base"]:
        base = int(args[1]); args = args[2:]
    dirs = sorted(glob.glob("/verif/seeded/*-*"))
    if args[:1] == ["--benign"]:
        dirs = sorted(glob.glob("/verif/benign/*-*")); args = args[1:]
    if args:
        dirs = [d for d in dirs if os.path.basename(d) in args]
    q = queue.Queue()
    for d in dirs:
        q.put(d)
    lock = threading.Lock()
    ts = [threading.Thread(target=work, args=(base + k, q, lock)) for k in range(n)]
    for t in ts: t.start()
    for t in ts: t.join()

if __name__ == "__main__":
    main()
